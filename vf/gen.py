"""Typed, size-bounded program generator over an AST of my own (Python tuples), a printer with
minimal parentheses following the *published* precedence table, and a layout engine.

The text ucg sees is produced independently of ucg's parser and printer.

Expression nodes
  ("int", n>=0)  ("float", "1.5")  ("str", s)  ("bool", b)  ("null",)  ("sym", name)
  ("list", [e..])  ("tuple", [(name, e)..])
  ("bin", op, l, r)      op in + - * / %% == != < > <= >= && || ~ !~ in is
  ("sel", base, key)     key = ("f", name) | ("i", n) | ("e", expr)
  ("not", e) ("fail", e) ("trace", e) ("convert", fmt, e)
  ("copy", base, [(name, e)..])            base = ("sym", n) | ("sel", ..)
  ("call", callee, [args])                 callee = ("sym", n) | ("sel", ..)
  ("cast", "int|float|str|bool", e)
  ("func", [params], body)
  ("select", val, default|None, [(name, e)..])
  ("map", f, t) ("filter", f, t) ("reduce", f, acc, t)
  ("module", [(name, default)..], out|None, [stmts])
  ("fmt", [parts], [args])      parts: ("lit", text) | ("ph",)
  ("fmt1", [parts], arg)        parts: ("lit", text) | ("e", expr)
  ("range", start, step|None, end)
  ("grp", e)                    explicit parentheses (layout only, value-neutral)
Statements
  ("let", name, e)  ("expr", e)  ("assert", e)
"""
import re

from . import refprec

RESERVED = ["self", "assert", "true", "false", "let", "import", "as", "in", "is", "not", "fail", "select", "func",
            "module", "env", "map", "filter", "reduce", "NULL", "out", "constraint", "convert", "TRACE",
            "include", "int", "float", "str", "bool", "mod", "item"]

BAREWORD_RE = re.compile(r"^[A-Za-z][A-Za-z0-9_-]*$")

_TABLE = None


def table():
    global _TABLE
    if _TABLE is None:
        _TABLE = refprec.load_table()
    return _TABLE


# ------------------------------------------------------------------------------------------
# printer

def quote(s):
    """ucg string literal for the value s (documented escapes: \\n \\r \\t, \\\\, \\")"""
    out = ['"']
    for ch in s:
        if ch == "\\":
            out.append("\\\\")
        elif ch == '"':
            out.append('\\"')
        elif ch == "\n":
            out.append("\\n")
        elif ch == "\r":
            out.append("\\r")
        elif ch == "\t":
            out.append("\\t")
        else:
            out.append(ch)
    out.append('"')
    return "".join(out)


def field_name_src(name, force_quote=False):
    if force_quote or not BAREWORD_RE.match(name) or (name in RESERVED and name not in ("true", "false")):
        return quote(name)
    return name


PREFIX_KINDS = ("not", "fail", "trace", "convert", "func", "fmt1")


class Printer:
    """Emits a flat token list.  Pseudo tokens ("<", tag) / (">", tag) delimit spans."""

    def __init__(self, rng=None, extra_parens=0.0, quote_fields=0.0, trailing_commas=0.0):
        self.toks = []
        self.rng = rng
        self.extra_parens = extra_parens
        self.quote_fields = quote_fields
        self.trailing_commas = trailing_commas

    def t(self, text):
        self.toks.append(text)

    def mark(self, kind, tag):
        self.toks.append((kind, tag))

    def _coin(self, p):
        return self.rng is not None and p > 0 and self.rng.random() < p

    # -- expressions
    def level(self, e):
        """precedence level of the node's top operator per the published table; atoms = 99"""
        if e[0] == "bin":
            return table()[e[1]]
        if e[0] == "sel":
            return table()["."]
        return 99

    def expr(self, e, tail=True, paren_ok=True):
        """tail: nothing follows this expression inside the current delimited context"""
        if paren_ok and self._coin(self.extra_parens):
            self.t("(")
            self.expr(e, True, False)
            self.t(")")
            return
        k = e[0]
        if k in PREFIX_KINDS and not tail:
            self.t("(")
            self.expr(e, True, False)
            self.t(")")
            return
        getattr(self, "p_" + k)(e, tail)

    def operand(self, e, parent_level, right, tail):
        """print e as an operand of a binary operator of level parent_level"""
        lv = self.level(e)
        need = lv < parent_level or (right and lv == parent_level)
        if need:
            self.t("(")
            self.expr(e, True, False)
            self.t(")")
        else:
            self.expr(e, tail)

    def p_int(self, e, tail):
        self.t(str(e[1]))

    def p_float(self, e, tail):
        self.t(e[1])

    def p_str(self, e, tail):
        self.t(quote(e[1]))

    def p_bool(self, e, tail):
        self.t("true" if e[1] else "false")

    def p_null(self, e, tail):
        self.t("NULL")

    def p_sym(self, e, tail):
        self.t(e[1])

    def p_grp(self, e, tail):
        self.t("(")
        self.expr(e[1], True, False)
        self.t(")")

    def p_list(self, e, tail):
        self.t("[")
        for i, x in enumerate(e[1]):
            if i:
                self.t(",")
            self.mark("<", ("elem", i))
            self.expr(x, True)
            self.mark(">", ("elem", i))
        if e[1] and self._coin(self.trailing_commas):
            self.t(",")
        self.t("]")

    def fields(self, flds):
        for i, (n, x) in enumerate(flds):
            if i:
                self.t(",")
            self.t(field_name_src(n, self._coin(self.quote_fields)))
            self.t("=")
            self.expr(x, True)
        if flds and self._coin(self.trailing_commas):
            self.t(",")

    def p_tuple(self, e, tail):
        self.t("{")
        self.fields(e[1])
        self.t("}")

    def p_bin(self, e, tail):
        op, l, r = e[1], e[2], e[3]
        lv = table()[op]
        if op == "in" and l[0] == "sym":
            # `name in tuple` tests the NAME; parentheses would change the meaning
            self.t(l[1])
        else:
            self.operand(l, lv, False, False)
        self.t(op)
        self.operand(r, lv, True, tail)

    def p_sel(self, e, tail):
        base, key = e[1], e[2]
        atom = base[0] in ("sym", "sel", "grp", "tuple", "list", "str", "call", "copy") and not (
            base[0] == "sel" and base[2][0] == "i" and key[0] == "i")
        if base[0] == "call" and base[1][0] == "sel":
            atom = True
        if atom:
            self.expr(base, False, False)
        else:
            self.t("(")
            self.expr(base, True, False)
            self.t(")")
        self.t(".")
        if key[0] == "f":
            # `.true` / `.false` lex as booleans, not names: such fields are selected quoted
            self.t(field_name_src(key[1], key[1] in ("true", "false") or self._coin(self.quote_fields)))
        elif key[0] == "i":
            self.t(str(key[1]))
        else:
            self.t("(")
            self.expr(key[1], True, False)
            self.t(")")

    def p_not(self, e, tail):
        self.t("not")
        self.expr(e[1], True)

    def p_fail(self, e, tail):
        self.t("fail")
        self.expr(e[1], True)

    def p_trace(self, e, tail):
        self.t("TRACE")
        self.expr(e[1], True)

    def p_convert(self, e, tail):
        self.t("convert")
        self.t(e[1])
        self.expr(e[2], True)

    def base_path(self, b):
        """copy base / callee: a symbol or a dotted path, never parenthesised"""
        if b[0] == "sym":
            self.t(b[1])
        else:
            self.p_sel(b, False)

    def p_copy(self, e, tail):
        self.base_path(e[1])
        self.t("{")
        self.fields(e[2])
        self.t("}")

    def p_call(self, e, tail):
        self.base_path(e[1])
        self.t("(")
        for i, a in enumerate(e[2]):
            if i:
                self.t(",")
            self.mark("<", ("arg", i))
            self.expr(a, True)
            self.mark(">", ("arg", i))
        self.t(")")

    def p_cast(self, e, tail):
        self.t(e[1])
        self.t("(")
        self.expr(e[2], True)
        self.t(")")

    def p_func(self, e, tail):
        self.t("func")
        self.t("(")
        for i, p in enumerate(e[1]):
            if i:
                self.t(",")
            self.t(p)
        self.t(")")
        self.t("=>")
        self.mark("<", ("body", 0))
        self.expr(e[2], True)
        self.mark(">", ("body", 0))

    def p_select(self, e, tail):
        self.t("select")
        self.t("(")
        self.expr(e[1], True)
        if e[2] is not None:
            self.t(",")
            self.expr(e[2], True)
        self.t(")")
        self.t("=>")
        self.t("{")
        self.fields(e[3])
        self.t("}")

    def p_map(self, e, tail):
        self.t("map")
        self.t("(")
        self.expr(e[1], True)
        self.t(",")
        self.expr(e[2], True)
        self.t(")")

    def p_filter(self, e, tail):
        self.t("filter")
        self.t("(")
        self.expr(e[1], True)
        self.t(",")
        self.expr(e[2], True)
        self.t(")")

    def p_reduce(self, e, tail):
        self.t("reduce")
        self.t("(")
        self.expr(e[1], True)
        self.t(",")
        self.expr(e[2], True)
        self.t(",")
        self.expr(e[3], True)
        self.t(")")

    def p_module(self, e, tail):
        self.t("module")
        self.t("{")
        self.fields(e[1])
        self.t("}")
        self.t("=>")
        if e[2] is not None:
            self.t("(")
            self.expr(e[2], True, False)
            self.t(")")
        self.t("{")
        for s in e[3]:
            self.stmt(s)
        self.t("}")

    def p_fmt(self, e, tail):
        self.t(quote(template_text(e[1])))
        self.t("%")
        self.t("(")
        for i, a in enumerate(e[2]):
            if i:
                self.t(",")
            self.expr(a, True)
        self.t(")")

    def p_fmt1(self, e, tail):
        self.t(quote(template_text(e[1])))
        self.t("%")
        # a parenthesised argument would select the simple form: print symbols/atoms bare
        self.expr(e[2], True, False)

    def p_range(self, e, tail):
        def opnd(x):
            if x[0] in ("int", "sym"):
                self.expr(x, False, False)
            else:
                self.t("(")
                self.expr(x, True, False)
                self.t(")")
        opnd(e[1])
        self.t(":")
        if e[2] is not None:
            opnd(e[2])
            self.t(":")
        opnd(e[3])

    # -- statements
    def stmt(self, s, idx=None):
        if idx is not None:
            self.mark("<", ("stmt", idx))
        if s[0] == "let":
            self.t("let")
            self.t(s[1])
            self.t("=")
            self.expr(s[2], True)
        elif s[0] == "expr":
            self.expr(s[1], True)
        elif s[0] == "assert":
            self.t("assert")
            self.expr(s[1], True)
        elif s[0] == "out":
            self.t("out")
            self.t(s[1])
            self.expr(s[2], True)
        elif s[0] == "raw":
            for x in s[1]:
                self.t(x)
        else:
            raise ValueError(s)
        self.t(";")
        if idx is not None:
            self.mark(">", ("stmt", idx))

    def program(self, stmts):
        for i, s in enumerate(stmts):
            self.stmt(s, i)
        return self.toks


def template_text(parts):
    """value-level template text (what the format machinery sees after literal decoding)"""
    out = []
    for p in parts:
        if p[0] == "lit":
            out.append(p[1].replace("\\", "\\\\").replace("@", "\\@"))
        elif p[0] == "ph":
            out.append("@")
        else:
            out.append("@{" + to_text_expr(p[1]) + "}")
    return "".join(out)


def to_text_expr(e):
    pr = Printer()
    pr.expr(e, True)
    return join_canonical(pr.toks)


NO_SPACE_BEFORE = {",", ";", ")", "]", "}"}
NO_SPACE_AFTER = {"(", "[", "{"}


def join_canonical(toks):
    out = []
    prev = None
    for t in toks:
        if isinstance(t, tuple):
            continue
        if prev is not None and not (t in NO_SPACE_BEFORE or prev in NO_SPACE_AFTER or t == "." or prev == "."):
            out.append(" ")
        out.append(t)
        prev = t
    return "".join(out)


def to_text(stmts, **kw):
    pr = Printer(**kw)
    pr.program(stmts)
    return join_stmts(pr.toks)


def join_stmts(toks):
    """canonical layout: one statement per line"""
    lines = []
    cur = []
    depth = 0
    for t in toks:
        if isinstance(t, tuple):
            if t[1][0] == "stmt":
                if t[0] == "<":
                    depth += 1
                else:
                    depth -= 1
                    if depth == 0:
                        lines.append(join_canonical(cur))
                        cur = []
            continue
        cur.append(t)
    if cur:
        lines.append(join_canonical(cur))
    return "\n".join(lines) + "\n"


# ------------------------------------------------------------------------------------------
# layout engine

COMMENT_POOL = [" a comment", "x", "", " let x = 1;", " \"quote", " }", "/ slashes //", " é ünï"]


class Layout:
    """Joins a token list with random whitespace / newlines / comments and reports where each
    token and each marked span lands.  Lines and columns are 1-based; columns count code
    points (the programs laid out here are ASCII unless a string literal says otherwise)."""

    def __init__(self, rng, newline="\n", p_newline=0.25, p_comment=0.08, p_tight=0.5, max_indent=6,
                 stmt_own_line=False, comments=True):
        self.rng = rng
        self.nl = newline
        self.p_newline = p_newline
        self.p_comment = p_comment if comments else 0.0
        self.p_tight = p_tight
        self.max_indent = max_indent
        self.stmt_own_line = stmt_own_line

    def render(self, toks):
        """-> (text, tokpos, spans, comments)
        tokpos: [(token, line, col, byte offset)], spans: {tag: [((l,c) start, (l,c) end incl.), ...]},
        comments: [(line, text)] in source order"""
        r = self.rng
        out = []
        line, col, off = 1, 1, 0
        tokpos = []
        spans = {}
        open_marks = []      # (tag, start)
        comments = []
        prev = None
        pending_open = []

        def emit(s):
            nonlocal line, col, off
            out.append(s)
            for ch in s:
                if ch == "\n":
                    line += 1
                    col = 1
                else:
                    col += 1
            off += len(s.encode("utf-8"))

        last_end = (1, 1)
        for t in toks:
            if isinstance(t, tuple):
                if t[0] == "<":
                    pending_open.append(t[1])
                else:
                    for i in range(len(open_marks) - 1, -1, -1):
                        if open_marks[i][0] == t[1]:
                            tag, start = open_marks.pop(i)
                            spans.setdefault(tag, []).append((start, last_end))
                            break
                continue
            if prev is not None:
                tight_ok = (t in NO_SPACE_BEFORE or prev in NO_SPACE_AFTER)
                newstmt = self.stmt_own_line and any(tag[0] == "stmt" for tag in pending_open)
                if newstmt:
                    sep = self.nl
                elif t == "." or prev == ".":
                    sep = ""          # selectors are written tight
                elif tight_ok and r.random() < self.p_tight:
                    sep = ""
                else:
                    x = r.random()
                    if x < self.p_comment:
                        sep = " //" + r.choice(COMMENT_POOL) + self.nl
                    elif x < self.p_comment + self.p_newline:
                        sep = self.nl + " " * r.randint(0, self.max_indent)
                    else:
                        sep = " " * r.choice([1, 1, 1, 2, 3]) if r.random() < 0.9 else "\t"
                if "//" in sep:
                    comments.append((line, sep[sep.index("//") + 2:].rstrip("\r\n")))
                emit(sep)
            for tag in pending_open:
                open_marks.append((tag, (line, col)))
            pending_open = []
            tokpos.append((t, line, col, off))
            emit(t)
            last_end = (line, col - 1)
            prev = t
        emit(self.nl)
        return "".join(out), tokpos, spans, comments


def layout_text(rng, toks, **kw):
    return Layout(rng, **kw).render(toks)
