"""Minimal LSP stdio client for `ucg lsp`: Content-Length framing, full message history recorded at
the client boundary (send events before writing, receive events after reading)."""
import json
import os
import queue
import subprocess
import threading
import time

from . import core


class LspClient:
    def __init__(self, cwd, home):
        env = {"PATH": "/usr/bin:/bin", "HOME": home}
        self.proc = subprocess.Popen([core.UCG, "lsp"], cwd=cwd, env=env, stdin=subprocess.PIPE, stdout=subprocess.PIPE,
                                     stderr=subprocess.PIPE, bufsize=0)
        self.q = queue.Queue()
        self.history = []
        self.next_id = 1
        self.stderr_buf = []
        self.reader = threading.Thread(target=self._read_loop, daemon=True)
        self.reader.start()
        self.err_reader = threading.Thread(target=self._err_loop, daemon=True)
        self.err_reader.start()
        self.notifications = []
        self.dead = False

    def _err_loop(self):
        try:
            while True:
                b = self.proc.stderr.read(4096)
                if not b:
                    break
                self.stderr_buf.append(b)
        except Exception:
            pass

    def _read_loop(self):
        f = self.proc.stdout
        try:
            while True:
                headers = b""
                while not headers.endswith(b"\r\n\r\n"):
                    c = f.read(1)
                    if not c:
                        self.q.put(None)
                        return
                    headers += c
                n = 0
                for line in headers.split(b"\r\n"):
                    if line.lower().startswith(b"content-length:"):
                        n = int(line.split(b":")[1].strip())
                body = b""
                while len(body) < n:
                    chunk = f.read(n - len(body))
                    if not chunk:
                        self.q.put(None)
                        return
                    body += chunk
                try:
                    self.q.put(json.loads(body.decode("utf-8")))
                except ValueError:
                    self.q.put({"_garbled": body[:200].decode("utf-8", "replace")})
        except Exception:
            self.q.put(None)

    def _send(self, msg):
        data = json.dumps(msg).encode("utf-8")
        self.history.append({"dir": "send", "t": round(time.monotonic(), 4), "msg": _short(msg)})
        try:
            self.proc.stdin.write(b"Content-Length: %d\r\n\r\n" % len(data) + data)
            self.proc.stdin.flush()
            return True
        except (BrokenPipeError, OSError):
            self.dead = True
            return False

    def notify(self, method, params):
        return self._send({"jsonrpc": "2.0", "method": method, "params": params})

    def request(self, method, params, timeout=10.0):
        """-> ("ok", response) | ("timeout", None) | ("dead", None)"""
        rid = self.next_id
        self.next_id += 1
        if not self._send({"jsonrpc": "2.0", "id": rid, "method": method, "params": params}):
            return "dead", None
        deadline = time.monotonic() + timeout
        while True:
            rem = deadline - time.monotonic()
            if rem <= 0:
                return "timeout", None
            try:
                m = self.q.get(timeout=rem)
            except queue.Empty:
                return "timeout", None
            if m is None:
                self.dead = True
                return "dead", None
            self.history.append({"dir": "recv", "t": round(time.monotonic(), 4), "msg": _short(m)})
            if "id" in m and m.get("id") == rid and ("result" in m or "error" in m):
                return "ok", m
            if "method" in m and "id" not in m:
                self.notifications.append(m)

    def drain(self, timeout=0.05):
        while True:
            try:
                m = self.q.get(timeout=timeout)
            except queue.Empty:
                return
            if m is None:
                self.dead = True
                return
            self.history.append({"dir": "recv", "t": round(time.monotonic(), 4), "msg": _short(m)})
            if "method" in m and "id" not in m:
                self.notifications.append(m)

    def initialize(self, root):
        st, r = self.request("initialize", {"processId": None, "rootUri": "file://" + root, "capabilities": {}}, timeout=20.0)
        if st == "ok":
            self.notify("initialized", {})
        return st, r

    def shutdown(self, timeout=10.0):
        """-> (status, exit code or None)"""
        st, r = self.request("shutdown", None, timeout=timeout)
        if st != "ok":
            return st, None
        self.notify("exit", None)
        try:
            rc = self.proc.wait(timeout=timeout)
        except subprocess.TimeoutExpired:
            return "no-exit", None
        return "ok", rc

    def kill(self):
        try:
            self.proc.kill()
        except Exception:
            pass
        try:
            self.proc.wait(timeout=5)
        except Exception:
            pass
        for f in (self.proc.stdin, self.proc.stdout, self.proc.stderr):
            try:
                f.close()
            except Exception:
                pass

    def stderr_text(self):
        return b"".join(self.stderr_buf).decode("utf-8", "replace")


def _short(m):
    s = json.dumps(m)
    if len(s) > 600:
        return {"_truncated": s[:600]}
    return m


def diag_key(d):
    r = d.get("range", {})
    return (r.get("start", {}).get("line"), r.get("start", {}).get("character"), r.get("end", {}).get("line"),
            r.get("end", {}).get("character"), d.get("severity"), d.get("message"))


def latest_diagnostics(notifications):
    """uri -> list of diagnostics from the last publishDiagnostics for that uri"""
    out = {}
    for n in notifications:
        if n.get("method") == "textDocument/publishDiagnostics":
            out[n["params"]["uri"]] = n["params"].get("diagnostics", [])
    return out
