"""Value-tree generator (tagged JSON form understood by the probe) and conversions.

tagged:  None  True/False  "str"  {"i": "123"}  {"f": "<16 hex>"}  [..]  {"T": [[k, v], ..]}  {"K": [...]}
"""
import math
import struct

HOSTILE_STRINGS = ["", "true", "false", "True", "yes", "no", "on", "off", "null", "Null", "~", "1", "1.5", "0x10", "010", "1e3",
                   "1_000", ".inf", ".nan", "-", "- x", "a: b", "a:b", ": x", "#c", "a #c", "@x", "`x", "%x", "!tag", "&a", "*a",
                   "|", ">", "[", "]", "{", "}", "[a]", "{a: 1}", ",", "?", "? x", " lead", "trail ", " ", "  ", "\t", "a\tb",
                   "line1\nline2", "line1\nline2\n", "\n", "\nlead", "a\r\nb", "\r", "quo\"te", "quo'te", "'", "\"", "''", "\"\"",
                   "back\\slash", "\\n", "\\", "\x00", "\x01", "\x07", "\x1b[0m", "\x7f", "\x85", "\xa0", " ", " ", "﻿",
                   "é", "ü ñ", "中文", "\U0001F600", "a\U0001F600b", "́", "12:30", "1:2:3", "2001-01-01", "2001-01-01T00:00:00Z",
                   "=", "a=b", "key = 'v'", "[table]", "\"\"\"", "'''", "a\"\"\"b", "x" * 300, "long " * 60, "<tag>", "&amp;", "]]>",
                   "$HOME", "$(x)", "*", "~/x", "-1", "+1", "0.0", "-0", "NaN", "Infinity", "0o7", "0b1", "1__0", "日本"]
HOSTILE_KEYS = ["a", "b", "key", "a b", "a.b", "a-b", "a_b", "1", "01", "1.5", "true", "null", "~", "", " ", "é", "a:b", "a: b",
                "#", "a#b", "k\"q", "k'q", "[x]", "{x}", "x=y", "-", "- a", "?", "\U0001F600", "a\nb", "\t", "\\", "$v", "<k>", "yes",
                "no", "on", "y", "n", "<<", "A", "z" * 40]
I64 = [0, 1, -1, 2, 42, 255, 256, 65535, 2**31 - 1, 2**31, -2**31, 2**32, 2**53 - 1, 2**53, 2**53 + 1, -(2**53) - 1, 2**62,
       2**63 - 1, -(2**63), -(2**63) + 1, 10**15, 10**18, 123456789012345678]
FLOATS = [0.0, -0.0, 1.0, -1.0, 0.5, 1.5, 0.1, 1e-7, 1e21, 1e22, 1.7976931348623157e308, 5e-324, 2.2250738585072014e-308,
          123456789.125, 3.141592653589793, 1e15, 1e16, 1e17, 100.0, 1e-5, 0.3333333333333333, 9007199254740993.0, 4.35,
          2.5e-10, 6.02214076e23]
NONFINITE = [float("inf"), float("-inf"), float("nan")]


def fl(x):
    return {"f": struct.pack(">d", x).hex()}


def it(n):
    return {"i": str(n)}


def rand_string(r, hostile=0.5):
    x = r.random()
    if x < hostile:
        return r.choice(HOSTILE_STRINGS)
    n = r.randint(0, 12)
    out = []
    for _ in range(n):
        y = r.random()
        if y < 0.6:
            out.append(chr(r.randint(0x20, 0x7e)))
        elif y < 0.8:
            out.append(chr(r.randint(0xa0, 0x24ff)))
        elif y < 0.9:
            cp = r.randint(0x2500, 0xffff)
            if 0xd800 <= cp <= 0xdfff:
                cp = 0x4e00
            out.append(chr(cp))
        elif y < 0.95:
            out.append(chr(r.randint(0x10000, 0x1ffff)))
        else:
            out.append(r.choice(["\n", "\t", "\"", "'", "\\", ":", "#", " "]))
    return "".join(out)


def rand_key(r):
    if r.random() < 0.6:
        return r.choice(HOSTILE_KEYS)
    return rand_string(r, 0.2) or "k"


def rand_scalar(r, nonfinite=0.03, nulls=True):
    x = r.random()
    if x < 0.08 and nulls:
        return None
    if x < 0.2:
        return r.random() < 0.5
    if x < 0.42:
        return it(r.choice(I64) if r.random() < 0.7 else r.randint(-10**6, 10**6))
    if x < 0.6:
        if r.random() < nonfinite:
            return fl(r.choice(NONFINITE))
        if r.random() < 0.7:
            return fl(r.choice(FLOATS) * r.choice([1, 1, -1]))
        return fl(struct.unpack(">d", struct.pack(">Q", r.getrandbits(64)))[0]) if r.random() < 0.3 else fl(r.uniform(-1e6, 1e6))
    return rand_string(r)


def rand_value(r, depth=3, nonfinite=0.03, nulls=True, top_tuple=False):
    if top_tuple or (depth > 0 and r.random() < 0.45):
        if top_tuple or r.random() < 0.55:
            n = r.randint(0, 5)
            keys = []
            while len(keys) < n:
                k = rand_key(r)
                if k not in keys:
                    keys.append(k)
            return {"T": [[k, rand_value(r, depth - 1, nonfinite, nulls)] for k in keys]}
        return [rand_value(r, depth - 1, nonfinite, nulls) for _ in range(r.randint(0, 4))]
    return rand_scalar(r, nonfinite, nulls)


def to_float(t):
    return struct.unpack(">d", bytes.fromhex(t["f"]))[0]


def walk(t):
    yield t
    if isinstance(t, list):
        for x in t:
            for y in walk(x):
                yield y
    elif isinstance(t, dict) and "T" in t:
        for k, v in t["T"]:
            for y in walk(v):
                yield y


def has_nonfinite(t):
    return any(isinstance(x, dict) and "f" in x and not math.isfinite(to_float(x)) for x in walk(t))


def has_null(t):
    return any(x is None for x in walk(t))


def has_constraint(t):
    return any(isinstance(x, dict) and "K" in x for x in walk(t))


def depth_of(t):
    if isinstance(t, list):
        return 1 + max([depth_of(x) for x in t] or [0])
    if isinstance(t, dict) and "T" in t:
        return 1 + max([depth_of(v) for k, v in t["T"]] or [0])
    return 0
