"""Definitional reference interpreter for the ucg expression language, written from
docsite/site/content/reference/*.md.  It evaluates the generator's AST (vf/gen.py) directly;
it shares no code with ucg.

Values:  ("i", n) ("f", x) ("s", str) ("b", bool) ("n",) ("l", [v..]) ("t", [(k, v)..])
         ("F", params, body, env)  ("M", fields, out, stmts)

Outcomes of evaluating an expression: a value, `Fail` (the reference says the build must
fail) or `Unspec` (the reference is silent: no verdict for whatever depends on it).
"""
import math
import re
import struct

I64_MIN = -(1 << 63)
I64_MAX = (1 << 63) - 1


class Fail(Exception):
    pass


class Unspec(Exception):
    def __init__(self, why):
        Exception.__init__(self, why)
        self.why = why


class Budget(Exception):
    pass


NULL = ("n",)


def tname(v):
    return {"i": "int", "f": "float", "s": "str", "b": "bool", "n": "null", "l": "list", "t": "tuple",
            "F": "func", "M": "module"}[v[0]]


def fbits(x):
    return struct.pack(">d", x).hex()


def deep_eq(a, b, counters=None):
    """deep structural equality as documented: tuples equal only with the same fields in the
    same order.  Returns True/False; raises Unspec on function/module operands."""
    if a[0] in "FM" or b[0] in "FM":
        raise Unspec("equality on func/module")
    if a[0] != b[0]:
        return False
    k = a[0]
    if k == "n":
        return True
    if k == "f":
        return a[1] == b[1]
    if k in "isb":
        return a[1] == b[1]
    if k == "l":
        if len(a[1]) != len(b[1]):
            return False
        return all(deep_eq(x, y, counters) for x, y in zip(a[1], b[1]))
    if k == "t":
        if len(a[1]) != len(b[1]):
            return False
        an = [n for n, _ in a[1]]
        bn = [n for n, _ in b[1]]
        if an != bn:
            if sorted(an) == sorted(bn) and len(set(an)) == len(an):
                # same field set in a different order: the reference says "not equal"
                bd = dict(b[1])
                if all(deep_eq(v, bd[n], counters) for n, v in a[1]):
                    if counters is not None:
                        counters["tuple_eq_order_sensitive"] = counters.get("tuple_eq_order_sensitive", 0) + 1
                    raise TupleOrder()
            return False
        return all(deep_eq(x[1], y[1], counters) for x, y in zip(a[1], b[1]))
    raise Unspec("eq?")


class TupleOrder(Unspec):
    """tuples with the same fields in a different order: reference says unequal, flagged
    separately so that the monitor can report it under its own signature"""

    def __init__(self):
        Unspec.__init__(self, "tuple-eq-order")


SAFE_REGEX = re.compile(r"^[A-Za-z0-9 _^$.*+?\[\]-]*$")


class Interp:
    def __init__(self, strict=True, max_steps=200000, tuple_order_is_unspec=False):
        self.strict = strict
        self.steps = 0
        self.max_steps = max_steps
        self.unspec_sources = {}
        self.counters = {}
        self.traces = 0
        self.tuple_order_is_unspec = tuple_order_is_unspec

    def unspec(self, why):
        self.unspec_sources[why] = self.unspec_sources.get(why, 0) + 1
        raise Unspec(why)

    # ------------------------------------------------------------------ program
    def run(self, stmts, env=None):
        """-> (bindings dict name -> value | ("U", why), status, fail_index)
        status: "ok" | "fail" ; unspec bindings are marked, evaluation continues"""
        env = dict(env or {})
        bound = {}
        for idx, s in enumerate(stmts):
            try:
                if s[0] == "let":
                    if s[1] in env and not isinstance(env[s[1]], _Outer):
                        raise Fail("rebinding %s" % s[1])
                    try:
                        v = self.ev(s[2], env, [])
                    except Unspec as u:
                        v = ("U", u.why)
                    env[s[1]] = v
                    bound[s[1]] = v
                elif s[0] == "expr":
                    try:
                        self.ev(s[1], env, [])
                    except Unspec as u:
                        bound["<stmt%d>" % idx] = ("U", u.why)
                elif s[0] == "assert":
                    try:
                        self.ev(s[1], env, [])
                    except Unspec as u:
                        bound["<stmt%d>" % idx] = ("U", u.why)
                else:
                    raise Unspec("statement kind " + s[0])
            except Fail as f:
                return bound, "fail", idx, str(f)
        return bound, "ok", None, None

    # ------------------------------------------------------------------ expressions
    def ev(self, e, env, selfs):
        self.steps += 1
        if self.steps > self.max_steps:
            raise Budget()
        return getattr(self, "e_" + e[0])(e, env, selfs)

    def e_int(self, e, env, selfs):
        if e[1] > I64_MAX:
            self.unspec("int literal out of range")
        return ("i", e[1])

    def e_float(self, e, env, selfs):
        t = e[1]
        if t.startswith("."):
            t = "0" + t
        if t.endswith("."):
            t = t + "0"
        return ("f", float(t))

    def e_str(self, e, env, selfs):
        return ("s", e[1])

    def e_bool(self, e, env, selfs):
        return ("b", e[1])

    def e_null(self, e, env, selfs):
        return NULL

    def e_grp(self, e, env, selfs):
        return self.ev(e[1], env, selfs)

    def e_sym(self, e, env, selfs):
        n = e[1]
        if n == "self":
            if not selfs:
                raise Fail("self outside copy")
            return selfs[-1]
        if n == "env":
            self.unspec("env")
        if n not in env:
            raise Fail("unbound name %s" % n)
        v = env[n]
        if isinstance(v, _Outer):
            v = v.v
        if v[0] == "U":
            raise Unspec(v[1])
        return v

    def e_list(self, e, env, selfs):
        return ("l", [self.ev(x, env, selfs) for x in e[1]])

    def e_tuple(self, e, env, selfs):
        names = [n for n, _ in e[1]]
        vals = [(n, self.ev(x, env, selfs)) for n, x in e[1]]
        if len(set(names)) != len(names):
            self.unspec("duplicate field name in tuple literal")
        return ("t", vals)

    def e_not(self, e, env, selfs):
        v = self.ev(e[1], env, selfs)
        if v[0] != "b":
            raise Fail("not on non-bool")
        return ("b", not v[1])

    def e_fail(self, e, env, selfs):
        v = self.ev(e[1], env, selfs)
        raise Fail("fail expression")

    def e_trace(self, e, env, selfs):
        self.traces += 1
        return self.ev(e[1], env, selfs)

    def e_convert(self, e, env, selfs):
        self.ev(e[2], env, selfs)
        self.unspec("convert")

    # -- binary operators
    def e_bin(self, e, env, selfs):
        op = e[1]
        if op == "&&" or op == "||":
            l = self.ev(e[2], env, selfs)
            if l[0] != "b":
                raise Fail("%s on non-bool left" % op)
            if (op == "&&" and not l[1]) or (op == "||" and l[1]):
                return l
            r = self.ev(e[3], env, selfs)
            if r[0] != "b":
                raise Fail("%s on non-bool right" % op)
            return r
        if op == "in":
            return self.op_in(e, env, selfs)
        # both operands are always evaluated; a failure in either fails the expression, an
        # unspecified operand poisons it unless the other side fails
        lf = rf = None
        try:
            l = self.ev(e[2], env, selfs)
        except Unspec as u:
            lf = u
        try:
            r = self.ev(e[3], env, selfs)
        except Unspec as u:
            rf = u
        if lf is not None:
            raise lf
        if rf is not None:
            raise rf
        if op == "is":
            if r[0] != "s":
                raise Fail("is: right operand must be a type name string")
            if r[1] not in ("null", "str", "int", "float", "tuple", "list", "func", "module", "bool"):
                self.unspec("is with unknown type name")
            return ("b", tname(l) == r[1])
        if op in ("+", "-", "*", "/", "%%"):
            return self.arith(op, l, r)
        if op in ("==", "!="):
            if l[0] in "FM" or r[0] in "FM":
                self.unspec("equality on func/module")
            if l[0] != r[0] and l[0] != "n" and r[0] != "n":
                raise Fail("equality on different types")
            try:
                eq = deep_eq(l, r, self.counters)
            except TupleOrder:
                if self.tuple_order_is_unspec:
                    self.unspec("tuple equality with permuted fields")
                eq = False
            return ("b", eq if op == "==" else not eq)
        if op in ("<", ">", "<=", ">="):
            if l[0] != r[0] or l[0] not in "if":
                raise Fail("ordering on non-numeric or mixed types")
            a, b = l[1], r[1]
            return ("b", {"<": a < b, ">": a > b, "<=": a <= b, ">=": a >= b}[op])
        if op in ("~", "!~"):
            if l[0] != "s" or r[0] != "s":
                raise Fail("regex on non-strings")
            if not SAFE_REGEX.match(r[1]):
                self.unspec("regex outside the dialect-neutral subset")
            try:
                m = re.search(r[1], l[1]) is not None
            except re.error:
                self.unspec("regex python cannot compile")
            return ("b", m if op == "~" else not m)
        raise Unspec("operator " + op)

    def arith(self, op, l, r):
        if op == "+" and l[0] == "s" and r[0] == "s":
            return ("s", l[1] + r[1])
        if op == "+" and l[0] == "l" and r[0] == "l":
            return ("l", l[1] + r[1])
        if l[0] != r[0] or l[0] not in "if":
            raise Fail("arithmetic on %s and %s" % (tname(l), tname(r)))
        a, b = l[1], r[1]
        if l[0] == "i":
            if op == "+":
                v = a + b
            elif op == "-":
                v = a - b
            elif op == "*":
                v = a * b
            elif op == "/":
                if b == 0:
                    self.unspec("int division by zero")
                if a % b != 0 and (a < 0 or b < 0):
                    self.unspec("inexact int division with a negative operand")
                v = abs(a) // abs(b)
                if (a < 0) != (b < 0):
                    v = -v
            else:
                if b == 0:
                    self.unspec("int modulus by zero")
                if a < 0 or b < 0:
                    self.unspec("modulus with a negative operand")
                v = a % b
            if v < I64_MIN or v > I64_MAX:
                self.unspec("int overflow")
            return ("i", v)
        # floats: IEEE-754 double arithmetic
        try:
            if op == "+":
                v = a + b
            elif op == "-":
                v = a - b
            elif op == "*":
                v = a * b
            elif op == "/":
                if b == 0.0:
                    self.unspec("float division by zero")
                v = a / b
            else:
                if b == 0.0:
                    self.unspec("float modulus by zero")
                self.unspec("float modulus")
        except OverflowError:
            self.unspec("float overflow")
        return ("f", v)

    def op_in(self, e, env, selfs):
        r = self.ev(e[3], env, selfs)
        if r[0] == "t":
            if e[2][0] == "sym":
                name = e[2][1]
            else:
                l = self.ev(e[2], env, selfs)
                if l[0] != "s":
                    raise Fail("in tuple with non-string left operand")
                name = l[1]
            return ("b", any(n == name for n, _ in r[1]))
        l = self.ev(e[2], env, selfs)
        if r[0] == "l":
            for x in r[1]:
                try:
                    if deep_eq(l, x, self.counters):
                        return ("b", True)
                except TupleOrder:
                    self.unspec("tuple equality with permuted fields (in)")
            return ("b", False)
        if r[0] == "s":
            self.unspec("in on a string")
        raise Fail("in on %s" % tname(r))

    # -- selectors
    def e_sel(self, e, env, selfs):
        base = self.ev(e[1], env, selfs)
        key = e[2]
        if key[0] == "f":
            k = ("s", key[1])
        elif key[0] == "i":
            k = ("i", key[1])
        else:
            k = self.ev(key[1], env, selfs)
        return self.index(base, k)

    def index(self, base, k):
        if base[0] == "t" and k[0] == "s":
            names = [n for n, _ in base[1]]
            if names.count(k[1]) > 1:
                self.unspec("selector on duplicate field")
            for n, v in base[1]:
                if n == k[1]:
                    return v
        elif base[0] == "l" and k[0] == "i":
            if 0 <= k[1] < len(base[1]):
                return base[1][k[1]]
        if self.strict:
            raise Fail("bad selector")
        return NULL

    # -- copy / modules
    def merge(self, fields, name, v):
        for i, (n, old) in enumerate(fields):
            if n == name:
                to = _copy_type(old)
                tn = _copy_type(v)
                if {to, tn} == {"func", "module"}:
                    self.unspec("copy override between func and module")
                if to != tn and to != "null" and tn != "null":
                    raise Fail("copy override changes the type of %s" % name)
                fields[i] = (n, v)
                return
        fields.append((name, v))

    def e_copy(self, e, env, selfs):
        base = self.ev(e[1], env, selfs)
        names = [n for n, _ in e[2]]
        ov = []
        selfs2 = selfs + [base]
        for n, x in e[2]:
            ov.append((n, self.ev(x, env, selfs2)))
        if base[0] == "t":
            if len(set(names)) != len(names):
                self.unspec("duplicate field in copy body")
            fields = list(base[1])
            if len(set(n for n, _ in fields)) != len(fields):
                self.unspec("copy of tuple with duplicate fields")
            for n, v in ov:
                self.merge(fields, n, v)
            return ("t", fields)
        if base[0] == "M":
            if len(set(names)) != len(names):
                self.unspec("duplicate field in copy body")
            return self.instantiate(base, ov)
        raise Fail("copy of %s" % tname(base))

    def instantiate(self, m, ov):
        _, params, out, stmts = m
        fields = list(params)
        for n, v in ov:
            if n in ("this", "pkg"):
                self.unspec("override of mod.this/pkg")
            self.merge(fields, n, v)
        fields.append(("this", m))
        menv = {"mod": ("t", fields)}
        inner = Interp(self.strict, self.max_steps, self.tuple_order_is_unspec)
        inner.steps = self.steps
        inner.unspec_sources = self.unspec_sources
        inner.counters = self.counters
        bound = {}
        for idx, s in enumerate(stmts):
            if s[0] == "let":
                if s[1] in menv:
                    raise Fail("rebinding in module")
                if s[1] in ("mod",):
                    raise Fail("rebinding mod")
                v = inner.ev(s[2], menv, [])
                menv[s[1]] = v
                bound[s[1]] = v
            elif s[0] in ("expr", "assert"):
                inner.ev(s[1], menv, [])
            else:
                self.unspec("statement in module")
        self.steps = inner.steps
        self.traces += inner.traces
        if out is not None:
            r = inner.ev(out, menv, [])
            self.steps = inner.steps
            return r
        # order of the exported bindings is not specified by the reference: name order is used
        # (the same convention as for the top-level result)
        return ("t", sorted(bound.items()))

    def e_module(self, e, env, selfs):
        names = [n for n, _ in e[1]]
        params = [(n, self.ev(x, env, selfs)) for n, x in e[1]]
        if len(set(names)) != len(names):
            self.unspec("duplicate module parameter")
        return ("M", params, e[2], e[3])

    # -- functions
    def e_func(self, e, env, selfs):
        if len(set(e[1])) != len(e[1]):
            self.unspec("duplicate parameter name")
        return ("F", list(e[1]), e[2], dict(env))

    def call(self, f, args):
        if f[0] != "F":
            raise Fail("calling a %s" % tname(f))
        if len(args) != len(f[1]):
            raise Fail("arity")
        env = dict(f[3])
        for p, a in zip(f[1], args):
            env[p] = a
        return self.ev(f[2], env, [])

    def e_call(self, e, env, selfs):
        args = [self.ev(a, env, selfs) for a in e[2]]
        f = self.ev(e[1], env, selfs)
        return self.call(f, args)

    def e_cast(self, e, env, selfs):
        v = self.ev(e[2], env, selfs)
        to = e[1]
        if v[0] in "ltFM":
            raise Fail("cast of a composite")
        if to == "int":
            if v[0] == "i":
                return v
            if v[0] == "s":
                if re.match(r"^[+-]?[0-9]+$", v[1]):
                    n = int(v[1])
                    if I64_MIN <= n <= I64_MAX:
                        if v[1].startswith("+"):
                            self.unspec("int('+n')")
                        return ("i", n)
                    raise Fail("int() out of range")
                if re.match(r"^\s*[+-]?[0-9_.eE]+\s*$", v[1]):
                    self.unspec("int() of number-like text")
                raise Fail("int() of unparsable text")
            if v[0] == "f":
                # the reference is silent on rounding; the project's own types_test.ucg says "You can cast a float into an
                # int (truncates)": towards zero, for finite values an i64 can hold (anything else stays unspecified)
                f = v[1]
                if f == f and abs(f) < 9.2e18:
                    import math
                    return ("i", int(math.trunc(f)))
                self.unspec("int(float) out of range")
            if v[0] == "b":
                raise Fail("int(bool)")
            raise Fail("int(null)")
        if to == "float":
            if v[0] == "f":
                return v
            if v[0] == "i":
                return ("f", float(v[1]))
            if v[0] == "s":
                if re.match(r"^[0-9]+\.[0-9]+$", v[1]) or re.match(r"^[0-9]+$", v[1]):
                    return ("f", float(v[1]))
                if re.match(r"^[A-Za-z ]*$", v[1]) and v[1].strip().lower() not in ("inf", "infinity", "nan"):
                    raise Fail("float() of unparsable text")
                self.unspec("float() of unusual text")
            raise Fail("float(bool/null)")
        if to == "str":
            if v[0] == "s":
                return v
            if v[0] == "i":
                return ("s", str(v[1]))
            if v[0] == "b":
                return ("s", "true" if v[1] else "false")
            if v[0] == "f":
                self.unspec("str(float)")
            self.unspec("str(null)")
        if to == "bool":
            if v[0] == "b":
                return v
            if v[0] == "s":
                if v[1] == "true":
                    return ("b", True)
                if v[1] == "false":
                    return ("b", False)
                raise Fail("bool() of other text")
            raise Fail("bool() of number/null")
        raise Unspec("cast " + to)

    def e_select(self, e, env, selfs):
        v = self.ev(e[1], env, selfs)
        if v[0] == "s":
            key = v[1]
        elif v[0] == "b":
            key = "true" if v[1] else "false"
        else:
            self.unspec("select on a non-string, non-bool value")
        names = [n for n, _ in e[3]]
        if len(set(names)) != len(names):
            self.unspec("duplicate select arm")
        for n, x in e[3]:
            if n == key:
                return self.ev(x, env, selfs)
        if e[2] is not None:
            return self.ev(e[2], env, selfs)
        raise Fail("unhandled select case")

    # -- functional operators
    def arity(self, f, t, extra):
        """the functional operators call their function with a fixed number of arguments
        (list/string: item; tuple: name, value; reduce adds the accumulator)"""
        want = (2 if t[0] == "t" else 1) + extra
        if f[0] == "F" and t[0] in "lts" and len(f[1]) != want:
            raise Fail("functional-op callback arity")

    def items_of(self, t):
        if t[0] == "l":
            return "l", [[x] for x in t[1]]
        if t[0] == "t":
            if len(set(n for n, _ in t[1])) != len(t[1]):
                self.unspec("functional op over tuple with duplicate fields")
            return "t", [[("s", n), v] for n, v in t[1]]
        if t[0] == "s":
            return "s", [[("s", ch)] for ch in t[1]]
        raise Fail("functional op over %s" % tname(t))

    def e_map(self, e, env, selfs):
        f = self.ev(e[1], env, selfs)
        t = self.ev(e[2], env, selfs)
        if f[0] != "F":
            raise Fail("map with a non-function")
        self.arity(f, t, 0)
        kind, items = self.items_of(t)
        out = []
        for it in items:
            r = self.call(f, it)
            if kind == "l":
                out.append(r)
            elif kind == "t":
                # "The result should be a two item list with the first item being the new field name" (reference);
                # the implementation's own messages say "must": anything else fails
                if r[0] != "l" or len(r[1]) != 2 or r[1][0][0] != "s":
                    raise Fail("tuple-map callback not returning [name, value]")
                out.append((r[1][0][1], r[1][1]))
            else:
                if r[0] != "s":
                    self.unspec("string-map callback not returning a string")
                out.append(r[1])
        if kind == "l":
            return ("l", out)
        if kind == "t":
            if len(set(n for n, _ in out)) != len(out):
                self.unspec("tuple-map producing duplicate names")
            return ("t", out)
        return ("s", "".join(out))

    def e_filter(self, e, env, selfs):
        f = self.ev(e[1], env, selfs)
        t = self.ev(e[2], env, selfs)
        if f[0] != "F":
            raise Fail("filter with a non-function")
        self.arity(f, t, 0)
        kind, items = self.items_of(t)
        keep = []
        for it in items:
            r = self.call(f, it)
            drop = r == NULL or (r[0] == "b" and r[1] is False)
            if not drop:
                keep.append(it)
        if kind == "l":
            return ("l", [it[0] for it in keep])
        if kind == "t":
            return ("t", [(it[0][1], it[1]) for it in keep])
        return ("s", "".join(it[0][1] for it in keep))

    def e_reduce(self, e, env, selfs):
        f = self.ev(e[1], env, selfs)
        acc = self.ev(e[2], env, selfs)
        t = self.ev(e[3], env, selfs)
        if f[0] != "F":
            raise Fail("reduce with a non-function")
        self.arity(f, t, 1)
        kind, items = self.items_of(t)
        for it in items:
            acc = self.call(f, [acc] + it)
        return acc

    # -- format
    def render(self, v):
        if v[0] == "i":
            return str(v[1])
        if v[0] == "s":
            return v[1]
        if v[0] == "b":
            return "true" if v[1] else "false"
        self.unspec("rendering of %s in a format string" % tname(v))

    def e_fmt(self, e, env, selfs):
        parts, args = e[1], e[2]
        nph = sum(1 for p in parts if p[0] == "ph")
        if nph < len(args):
            # the reference does not say what surplus arguments mean
            self.unspec("more format arguments than placeholders")
        if nph > len(args):
            raise Fail("fewer format arguments than placeholders")
        vals = [self.ev(a, env, selfs) for a in args]
        out = []
        i = 0
        for p in parts:
            if p[0] == "lit":
                out.append(p[1])
            else:
                out.append(self.render(vals[i]))
                i += 1
        return ("s", "".join(out))

    def e_fmt1(self, e, env, selfs):
        parts, arg = e[1], e[2]
        item = self.ev(arg, env, selfs)
        env2 = dict(env)
        env2["item"] = item
        out = []
        for p in parts:
            if p[0] == "lit":
                out.append(p[1])
            else:
                out.append(self.render(self.ev(p[1], env2, [])))
        return ("s", "".join(out))

    def e_range(self, e, env, selfs):
        a = self.ev(e[1], env, selfs)
        s = self.ev(e[2], env, selfs) if e[2] is not None else ("i", 1)
        b = self.ev(e[3], env, selfs)
        if a[0] != "i" or s[0] != "i" or b[0] != "i":
            raise Fail("range over non-ints")
        if s[1] <= 0:
            raise Fail("range step <= 0")
        if b[1] - a[1] > 100000 * s[1]:
            self.unspec("very long range")
        if b[1] + s[1] > I64_MAX:
            self.unspec("range stepping past i64::MAX")
        return ("l", [("i", n) for n in range(a[1], b[1] + 1, s[1])])


class _Outer:
    """wrapper for a binding that is visible but may be shadowed (not used at top level)"""

    def __init__(self, v):
        self.v = v


def _copy_type(v):
    """type name used by the same-type rule of copy: functions and modules count as one
    family is NOT documented, so they are kept apart here and compared by the monitor only
    when they differ"""
    return tname(v)


# ------------------------------------------------------------------------------------------
# comparison with the tagged values returned by the probe

def lower(v):
    """reference value -> the tagged-JSON shape the probe returns (func/module -> null)"""
    k = v[0]
    if k == "i":
        return {"i": str(v[1])}
    if k == "f":
        return {"f": fbits(v[1])}
    if k == "s":
        return v[1]
    if k == "b":
        return v[1]
    if k in ("n", "F", "M"):
        return None
    if k == "l":
        return [lower(x) for x in v[1]]
    if k == "t":
        return {"T": [[n, lower(x)] for n, x in v[1]]}
    raise ValueError(v)


def strip_r(j):
    """drop the human-readable float repr from a probe value"""
    if isinstance(j, dict):
        if "f" in j:
            return {"f": j["f"]}
        if "T" in j:
            return {"T": [[k, strip_r(v)] for k, v in j["T"]]}
        return j
    if isinstance(j, list):
        return [strip_r(x) for x in j]
    return j


def same(a, b):
    """compare lowered reference value with probe value; NaN floats compare equal when both NaN"""
    if isinstance(a, dict) and isinstance(b, dict) and "f" in a and "f" in b:
        if a["f"] == b["f"]:
            return True
        fa = struct.unpack(">d", bytes.fromhex(a["f"]))[0]
        fb = struct.unpack(">d", bytes.fromhex(b["f"]))[0]
        return math.isnan(fa) and math.isnan(fb)
    if isinstance(a, dict) and isinstance(b, dict) and "T" in a and "T" in b:
        if len(a["T"]) != len(b["T"]):
            return False
        return all(x[0] == y[0] and same(x[1], y[1]) for x, y in zip(a["T"], b["T"]))
    if isinstance(a, list) and isinstance(b, list):
        return len(a) == len(b) and all(same(x, y) for x, y in zip(a, b))
    if type(a) != type(b):
        return False
    return a == b
