"""Hostile input generators for C04 (and C20): token soup, arbitrary UTF-8, token mutations,
edge-operand programs, deep-but-allowed nesting."""
import os
import re

from . import core

KEYWORDS = ["let", "import", "include", "as", "in", "is", "not", "fail", "select", "func", "module", "env", "map",
            "filter", "reduce", "NULL", "out", "constraint", "convert", "TRACE", "assert", "true", "false", "self",
            "mod", "item", "int", "float", "str", "bool", "json", "yaml", "toml", "xml", "env", "flags", "exec"]
PUNCT = ["{", "}", "(", ")", "[", "]", ",", ";", "=", "==", "=>", ">=", "<=", "<", ">", "!=", "!~", "~", "+", "-",
         "*", "/", "%", "%%", "&&", "||", ".", "..", ":", "::", "|", "@", "\\", "\"", "//", "!", "&", "$", "#", "?"]
WORDS = ["a", "b", "x1", "foo", "foo-bar", "_x", "a_b", "t", "f", "std", "x-1"]
NUMS = ["0", "1", "2", "10", "007", "1.0", ".5", "1.", "9223372036854775807", "9223372036854775808",
        "99999999999999999999999", "1e5", "0x10", "1.2.3"]
STRS = ['""', '"a"', '"a b"', '"@"', '"@{item}"', '"\\n"', '"\\\\"', '"\\""', '"é"', '"ÿሴ\U0001F600"', '"std/lists.ucg"',
        '"json"', '"str"', '"tuple"', '"', '"unterminated', '"\\']
WS = [" ", " ", " ", "\n", "\t", "\r\n", "  ", " // c\n", "//\n"]
OPENERS = {"{": "}", "(": ")", "[": "]"}


def token_soup(r, maxlen=120, max_nest=6):
    n = r.randint(1, maxlen)
    out = []
    depth = 0
    for i in range(n):
        x = r.random()
        if x < 0.22:
            t = r.choice(KEYWORDS)
        elif x < 0.55:
            t = r.choice(PUNCT)
            if t in OPENERS:
                if depth >= max_nest:
                    t = OPENERS[t]
                    depth = max(0, depth - 1)
                else:
                    depth += 1
            elif t in OPENERS.values():
                depth = max(0, depth - 1)
        elif x < 0.72:
            t = r.choice(WORDS)
        elif x < 0.84:
            t = r.choice(NUMS)
        elif x < 0.95:
            t = r.choice(STRS)
        else:
            t = rand_unicode(r, r.randint(1, 4))
        out.append(t)
        if r.random() < 0.8:
            out.append(r.choice(WS))
    return "".join(out)


def rand_unicode(r, n):
    out = []
    for _ in range(n):
        x = r.random()
        if x < 0.5:
            cp = r.randint(0x20, 0x7e)
        elif x < 0.7:
            cp = r.randint(0xa0, 0x7ff)
        elif x < 0.85:
            cp = r.randint(0x800, 0xffff)
            if 0xd800 <= cp <= 0xdfff:
                cp = 0x4e2d
        elif x < 0.93:
            cp = r.randint(0x10000, 0x10ffff)
        else:
            cp = r.choice([0, 1, 7, 9, 10, 13, 27, 127, 0x85, 0x2028, 0xfeff])
        out.append(chr(cp))
    return "".join(out)


def nesting_ok(text, limit=6):
    """bracket nesting depth of a text (ignoring strings roughly); used to keep generated soup
    away from the parser's exponential region unless that is the point"""
    d = m = 0
    for ch in text:
        if ch in "({[":
            d += 1
            m = max(m, d)
        elif ch in ")}]":
            d = max(0, d - 1)
    return m <= limit


# ------------------------------------------------------------------------------------------
# corpus and token mutation

def corpus_files():
    """every .ucg file shipped in the repository + every file of the fuzz corpus"""
    out = []
    for dp, dn, fn in os.walk(core.REPO):
        if any(part in ("target", ".git", "node_modules") for part in dp.split(os.sep)):
            continue
        for f in fn:
            p = os.path.join(dp, f)
            if f.endswith(".ucg") or (os.sep + "fuzz" + os.sep + "corpus" + os.sep) in p:
                out.append(p)
    return sorted(set(out))


def split_tokens(probe, text):
    """ucg's own token boundaries (byte offsets) for a text that tokenizes; None otherwise"""
    r = probe.safe_call({"op": "tokenize", "text": text})
    if not r.get("ok"):
        return None
    b = text.encode("utf-8")
    offs = [t[4] for t in r["tokens"] if t[0] != "END"]
    offs = sorted(set(o for o in offs if 0 <= o <= len(b)))
    if not offs:
        return None
    pieces = []
    if offs[0] > 0:
        pieces.append(b[:offs[0]])
    for i, o in enumerate(offs):
        e = offs[i + 1] if i + 1 < len(offs) else len(b)
        pieces.append(b[o:e])
    try:
        return [p.decode("utf-8") for p in pieces]
    except UnicodeDecodeError:
        return None


REPLACEMENTS = ["", ";", ",", "(", ")", "{", "}", "[", "]", "=", "==", ".", ":", "::", "..", "|", "%", "@", "\"", "NULL",
                "self", "mod", "item", "env", "0", "1", "9223372036854775807", "1.5", "\"\"", "\"@\"", "true", "not",
                "fail", "select", "func", "module", "import", "include", "map", "let", "in", "is", "=>", "-", "+", "/", "%%",
                "&&", "assert", "out", "convert", "TRACE", "constraint"]


def mutate(r, pieces):
    """one token-level mutation: delete / duplicate / swap / replace"""
    ps = list(pieces)
    if not ps:
        return "", "empty"
    i = r.randrange(len(ps))
    k = r.randint(0, 3)
    if k == 0:
        del ps[i]
        kind = "delete"
    elif k == 1:
        ps.insert(i, ps[i])
        kind = "duplicate"
    elif k == 2 and len(ps) > 1:
        j = r.randrange(len(ps))
        ps[i], ps[j] = ps[j], ps[i]
        kind = "swap"
    else:
        # keep the trailing whitespace of the replaced token
        m = re.match(r"^(.*?)(\s*)$", ps[i], re.S)
        ps[i] = r.choice(REPLACEMENTS) + (m.group(2) if m else " ")
        kind = "replace"
    return "".join(ps), kind


# ------------------------------------------------------------------------------------------
# edge-operand programs

I64MAX = "9223372036854775807"
I64MIN = "(0 - 9223372036854775807 - 1)"
INT_EDGE = ["0", "1", "2", "(0 - 1)", I64MAX, I64MIN, "4611686018427387904", "3037000500", "(0 - 3037000500)", "7"]
FLT_EDGE = ["0.0", "1.0", "(0.0 - 1.0)", "1.5", "179769313486231570000000000000000000000000000000000000000000000000000000000000000000000000000000000000000000000000000000000000000000000000000000000000000000000000000000000000000000000000000000000000000000000000000000000000000000000000000000000000000000000000000000000000000000000000000.0",
            "0.000000000000000000000000000000000000000000000000000000000000000000000000000000000000000000000000000000000000000000000000000000000000000000000000000000000000000000000000000000000000000000000000000000000000000000000000000000000000000000000000000000000000000000000000000000000000000000000000000000000000000000000000000000005"]


def edge_programs():
    """deterministic list of (label, text)"""
    out = []
    for op in ["+", "-", "*", "/", "%%"]:
        for a in INT_EDGE:
            for b in INT_EDGE:
                out.append(("int-arith", "let x = %s %s %s;" % (a, op, b)))
        for a in FLT_EDGE:
            for b in FLT_EDGE:
                out.append(("float-arith", "let x = %s %s %s;" % (a, op, b)))
    for a in ["0", "1", I64MAX, "9223372036854775800", I64MIN, "(0 - 5)"]:
        for b in ["0", "5", I64MAX, I64MIN, "(0 - 1)"]:
            if a == I64MIN and b in (I64MAX, "5", "0", "(0 - 1)"):
                continue      # ranges longer than 10^6 are excluded by the quantifier
            if a in ("0", "1", "(0 - 5)") and b == I64MAX:
                continue
            out.append(("range", "let x = %s:%s;" % (a, b)))
            for s in ["0", "(0 - 1)", "1", "3", I64MAX, "4611686018427387904"]:
                if s in ("1", "3") and a == "(0 - 5)" and b == I64MAX:
                    continue
                out.append(("range-step", "let x = %s:%s:%s;" % (a, s, b)))
    out.append(("range", "let x = 1.0:3;"))
    out.append(("range", "let x = \"a\":3;"))
    out.append(("range", "let x = 1:NULL:3;"))
    out.append(("range", "let x = 1:[1]:3;"))
    tmpls = ['""', '"@"', '"@ @"', '"@@@"', '"\\\\@"', '"\\\\"', '"@{"', '"@{item"', '"@{}"', '"@{1 +}"', '"@{item.a}"',
             '"@{{a=1}}"', '"@{\\"}"', '"@{item} @"', '"@{ @{item} }"', '"@{let x = 1;}"', '"@{fail \\"x\\"}"', '"é@é"',
             '"@{\\"é\\"}"', '"\\\\"', '"a\\\\"', '"@\\\\"']
    args = ["(1)", "(1, 2)", "(1, 2, 3)", "()", "1", "item", "{a = 1}", "[1]", "NULL", "(NULL)", "(fail \"x\")", "(1,)",
            "(func (x) => x)", "({a = 1}, [1], NULL, 1.5, true)"]
    for t in tmpls:
        for a in args:
            out.append(("format", "let x = %s %% %s;" % (t, a)))
    for c in ["int", "float", "str", "bool"]:
        for v in ["[1]", "{a = 1}", "NULL", "(func (x) => x)", "(module {} => {})", "\"\"", "\" 1\"", "\"1e400\"", "\"nan\"",
                  "\"inf\"", "1.5", "(0.0 - 1.5)", "9223372036854775807", "\"9223372036854775808\"", "1e400", "true",
                  "179769313486231570000000000000000000000000000000000000000000000000000000000000000000000000000000000000000000000000000000000000000000000000000000000000000000000000000000000000000000000000000000000000000000000000000000000000000000000000000000000000000000000000000000000000000000000000000000.0",
                  "\"é\"", "env", "self", "[]"]:
            out.append(("cast", "let x = %s(%s);" % (c, v)))
    for v in ["1", "[1]", "NULL", "{a = 1}", "true", "1.5", "(func () => 1)", "\"@\" % (1)", "\"\"", "env"]:
        out.append(("fail", "let x = fail %s;" % v))
        out.append(("fail", "fail %s;" % v))
        out.append(("select", "let x = select (%s, 1) => {a = 1};" % v))
        out.append(("select", "let x = select (%s) => {a = 1};" % v))
        out.append(("not", "let x = not %s;" % v))
        out.append(("assert", "assert %s;" % v))
        out.append(("trace", "let x = TRACE %s;" % v))
        out.append(("copy", "let b = %s; let x = b{a = 1};" % v))
        out.append(("map", "let x = map(func (a) => a, %s);" % v))
        out.append(("map", "let x = map(%s, [1, 2]);" % v))
        out.append(("filter", "let x = filter(func (a, b) => a, %s);" % v))
        out.append(("reduce", "let x = reduce(func (a, b, c) => a, %s, %s);" % (v, v)))
        out.append(("call", "let f = %s; let x = f(1);" % v))
        out.append(("sel", "let b = %s; let x = b.a;" % v))
        out.append(("sel", "let b = %s; let x = b.0;" % v))
        out.append(("sel", "let b = %s; let x = [1, 2].(b);" % v))
        out.append(("in", "let x = %s in %s;" % (v, v)))
        out.append(("is", "let x = %s is %s;" % (v, v)))
        out.append(("regex", "let x = %s ~ %s;" % (v, v)))
        for cv in ["json", "yaml", "toml", "xml", "env", "flags", "exec", "yamlmulti", "nosuch", "b64"]:
            out.append(("convert", "let x = convert %s %s;" % (cv, v)))
    for pat in ["(", "[a", "\\\\", "*", "a{1,", "(?P<x>", "\\\\p{Foo}", "a{99999999}", "(a*)*b", "é", ""]:
        out.append(("regex", "let x = \"aaaa\" ~ \"%s\"; let y = \"aaaa\" !~ \"%s\";" % (pat, pat)))
    for f in ["func () => 1", "func (a) => a", "func (a, b) => a", "func (a, a) => a"]:
        for a in ["()", "(1)", "(1, 2)", "(1, 2, 3)"]:
            out.append(("arity", "let f = %s; let x = f%s;" % (f, a)))
    misc = [
        "let x = self;", "let x = mod;", "let x = item;", "let x = env;", "let x = env.NOPE;", "let env = 1;",
        "let x = {a = self};", "let t = {a = 1}; let x = t{b = self.zz};", "let x = {a = 1}{b = 2};",
        "let m = module {a = 1} => {let x = mod.zz;}; let y = m{};", "let m = module {a = 1} => (zz) {}; let y = m{};",
        "let m = module {a = 1} => {}; let y = m{a = \"s\"};", "let m = module {} => {let mod = 1;}; let y = m{};",
        "let m = module {} => {out json 1;}; let y = m{};", "let m = module {} => {assert 1;}; let y = m{};",
        "let m = module {this = 1} => {}; let y = m{};", "let m = module {} => (mod.this) {}; let y = m{}; let z = y{};",
        "out json 1; out json 2;", "out nosuch 1;", "out json (func () => 1);", "out json NULL;", "out toml NULL;",
        "out xml 1;", "out exec {};", "out flags 1;", "out env [1];",
        "let x = import \"nosuch.ucg\";", "let x = import \"\";", "let x = import \"/\";", "let x = import \"std/nosuch.ucg\";",
        "let x = include str \"nosuch\";", "let x = include nosuch \"x\";", "let x = include json \"/dev/null\";",
        "let x = (import \"std/lists.ucg\").nosuch;", "let l = import \"std/lists.ucg\"; let x = l.len{list = 1};",
        "let l = import \"std/lists.ucg\"; let x = l.slice{start = 5, end = 1, list = [1]};",
        "let s = import \"std/strings.ucg\"; let x = s.ops{str = 1}.len;", "let s = import \"std/schema.ucg\"; let x = s.shaped{val = 1, shape = \"\"};",
        "let x = 1; let x = 2;", "let let = 1;", "let x = ;", "let = 1;", ";", ";;", "let x = 1", "let x = \"", "let x = \"\\", "//", "// c",
        "let x = 1.;", "let x = .;", "let x = ..;", "let x = 1..2;", "let x = 1.2.3;", "let x = 99999999999999999999;",
        "let x = 1e5;", "let x = 0x10;", "let x :: = 1;", "let x :: 1 = ;", "let x :: in 1.. = 1;", "let x :: in ..1 = 2;",
        "let x :: in 1..NULL = 1;", "let x :: in \"a\"..\"b\" = 1;", "let x :: 1 | = 1;", "let x :: | 1 = 1;",
        "constraint c = c; let x :: c = 1;", "constraint c = [c]; let x :: c = [[[]]];", "constraint c = {a = c}; let x :: c = {a = {a = 1}};",
        "constraint c = in 1..; let x :: c = 0;", "let x :: in 1..0 = 1;", "let f = func (a :: 0) => a; let x = f(\"s\");",
        "let t = {a :: 0 = \"s\"};", "let x = {a = 1, a = \"s\"};", "let x = {\"\" = 1};", "let x = {true = 1}.true;",
        "let x = [1, 2].9223372036854775807;", "let x = [1].99999999999999999999;", "let x = [1].(0 - 1);", "let x = \"abc\".0;",
        "let x = 1 in 1;", "let x = a in {a = 1};", "let x = \"@\" % (1) % (2);",
        "let x = 1 +;", "let x = + 1;", "let x = 1 + + 1;", "let x = (1;", "let x = 1);", "let x = [1;", "let x = {a = 1;",
        "let x = {a = };", "let x = {= 1};", "let x = {a 1};", "let x = func => 1;", "let x = func (1) => 1;",
        "let x = module => {};", "let x = module {} => ();", "let x = select => {};", "let x = select () => {};",
        "let x = select (1) => {};", "let x = map();", "let x = map(1);", "let x = reduce(1, 2);", "let x = import;",
        "let x = include;", "let x = include str;", "let x = convert;", "let x = convert json;", "out;", "out json;", "assert;",
        "constraint;", "constraint c;", "constraint c =;", "let x = 1:;", "let x = :1;", "let x = 1::2;", "let x = 1:2:;",
        "\u0000", "﻿ let x = 1;", "let x = 1; let y = 2;", "let é = 1;", "let x = é;", "let x = 1  + 2;",
    ]
    for m in misc:
        out.append(("misc", m))
    # recursive / mutually recursive named constraints: every pair/triple of arms x every value x every use site
    arms = ["c", "\"\"", "1", "[c]", "{k = c}", "{k = [c]}", "in 1..5", "d", "[d]", "NULL", "[[c]]", "{k = {j = c}}"]
    vals = ["\"x\"", "1", "7", "[]", "[[1]]", "[[\"s\"], \"t\"]", "{k = \"x\"}", "{k = [{k = []}, 1]}", "{k = {k = {k = 1}}}", "NULL", "true"]
    uses = ["let v :: c = %s;", "let f = func (p :: c) => p; let v = f(%s);", "let t = {fld :: c = %s};",
            "let m = module {p :: c = %s} => {let q = mod.p;}; let v = m{};", "let v :: [c] = [%s];"]
    combos = []
    for i, a in enumerate(arms):
        combos.append([a])
        for b in arms[i + 1:]:
            combos.append([a, b])
            combos.append([b, a])
    combos += [["c", "\"\"", "[c]"], ["[c]", "c", "1"], ["d", "c", "\"\""], ["{k = c}", "\"\"", "c"]]
    n = 0
    for ci, combo in enumerate(combos):
        cdef = "constraint c = " + " | ".join(combo) + "; "
        ddefs = ["", "constraint d = c | 1; ", "constraint d = \"\" | [c] | d; "] if any("d" in a for a in combo) else [""]
        for di, ddef in enumerate(ddefs):
            for vi, v in enumerate(vals):
                # each (combo, value) pair is seen at one use site, rotating through them; the plain let at every pair with a self arm
                use = uses[(ci + vi + di) % len(uses)]
                order = (ddef + cdef) if (ci + vi) % 2 else (cdef + ddef)
                out.append(("recursive-constraint", order + use % v))
                if "c" in combo and use is not uses[0]:
                    out.append(("recursive-constraint", order + uses[0] % v))
                n += 1
    return out


def nested(kind, depth, core="1"):
    """deep-but-allowed nesting (<= 64 levels by the quantifier); `core` is the innermost expression"""
    if kind == "paren":
        return "let x = " + "(" * depth + core + ")" * depth + ";"
    if kind == "list":
        return "let x = " + "[" * depth + core + "]" * depth + ";"
    if kind == "tuple":
        return "let x = " + "{a = " * depth + core + "}" * depth + ";"
    if kind == "selector":
        return "let t = " + "{a = " * depth + core + "}" * depth + "; let x = t" + ".a" * depth + ";"
    if kind == "not":
        return "let x = " + "not " * depth + ("true" if core == "1" else core) + ";"
    if kind == "call":
        return "let f = func (a) => a; let x = " + "f(" * depth + core + ")" * depth + ";"
    if kind == "copy":
        return "let t = {a = 1}; let x = " + "t{a = " * depth + core + "}" * depth + ";"
    if kind == "binary":
        return "let x = " + "1 + " * depth + core + ";"
    if kind == "func":
        return "let x = " + "func (a) => " * depth + core + ";"
    if kind == "select":
        return "let x = " + "select (\"a\", 0) => {a = " * depth + core + "}" * depth + ";"
    if kind == "module":
        return "let x = " + "module {} => { let m = " * depth + core + "; }" * depth + ";"
    if kind == "concat":
        return "let x = " + "[1] + " * depth + ("[1]" if core == "1" else core) + ";"
    if kind == "format":
        return "let x = " + "\"@\" % (" * depth + core + ")" * depth + ";"
    if kind == "trace":
        return "let x = " + "TRACE " * depth + core + ";"
    if kind == "cast":
        return "let x = " + "int(" * depth + core + ")" * depth + ";"
    if kind == "in-bareword":
        # a bareword on the left of `in`, nested on the right
        return "let a = 1; let x = " + "a in {b = " * depth + core + "}" * depth + ";"
    if kind == "in-string":
        return "let x = " + "\"a\" in {b = " * depth + core + "}" * depth + ";"
    if kind == "is":
        return "let x = " + "(" * depth + core + (" is \"int\")" * depth) + ";"
    if kind == "constraint-list":
        return "let x :: " + "[" * depth + "1" + "]" * depth + " = " + "[" * depth + core + "]" * depth + ";"
    raise ValueError(kind)




BROKEN_CORES = ["", "1 +", "+", ")", "]", "}", "let", "\"unterminated", "1 1", ",", "."]


def nested_broken(kind, depth):
    """the same nests with something that is NOT an expression at the innermost position, and cut off there: every level
    of the nest fails to parse, which is where a backtracking parser re-parses the inner text at every level"""
    out = []
    for c in BROKEN_CORES:
        out.append(("core:" + (c or "empty"), nested(kind, depth, core=c)))
    mark = "\x00CORE\x00"
    t = nested(kind, depth, core=mark)
    cut = t[:t.index(mark)]
    out.append(("cut-before-core", cut))
    out.append(("cut-before-core+;", cut + ";"))
    out.append(("cut-after-core", cut + "1"))
    return out


NEST_KINDS = ["paren", "list", "tuple", "selector", "not", "call", "copy", "binary", "func", "select", "module", "concat",
              "format", "trace", "cast", "constraint-list", "in-bareword", "in-string", "is"]
