"""C02 - operator chains group by the published precedence table, left to right."""
import itertools
import json
import time

from .. import core, refprec

RULE = ("exhaustive: every sequence of 1..4 of the 18 binary operators between distinct symbol operands "
        "(111,150 chains), parsed by ucglib::parse::parse and compared with the tree that textbook precedence "
        "climbing over the table published in reference/expressions.md dictates; random: chains of length <=10 "
        "with random parenthesised sub-chains and compound closed operands, each operator/paren skeleton under 3 "
        "operand assignments (operand independence). distinct = distinct source texts; non-trivial = >=2 operators "
        "or a parenthesised sub-chain.")

SRC_OPS = ["==", "!=", ">=", "<=", "<", ">", "~", "!~", "in", "is", "+", "-", "*", "/", "%%", "&&", "||", "."]


def shape(node):
    k = node.get("k")
    if k == "Binary":
        return ("B", node["op"], shape(node["l"]), shape(node["r"]))
    if k == "Grouped":
        return ("G", shape(node["e"]))
    if k == "Symbol":
        return ("L", node["v"])
    return ("L", "#")


def strip_leaves(t):
    if t[0] == "B":
        return ("B", t[1], strip_leaves(t[2]), strip_leaves(t[3]))
    if t[0] == "G":
        return ("G", strip_leaves(t[1]))
    return ("L",)


def first_diff(exp, obs):
    if exp[0] != obs[0]:
        return (exp[0] + (":" + exp[1] if exp[0] == "B" else ""), obs[0] + (":" + obs[1] if obs[0] == "B" else ""))
    if exp[0] == "B":
        if exp[1] != obs[1]:
            return ("B:" + exp[1], "B:" + obs[1])
        return first_diff(exp[2], obs[2]) or first_diff(exp[3], obs[3])
    if exp[0] == "G":
        return first_diff(exp[1], obs[1])
    if exp != obs:
        return ("L", "L")
    return None


def parse_many(probe, texts):
    """parse a batch of single-statement texts; returns list of ast-or-error per text"""
    joined = "\n".join(texts)
    r = probe.safe_call({"op": "parse", "text": joined})
    if r.get("ok") and len(r["ast"]) == len(texts):
        return [("ok", s) for s in r["ast"]]
    out = []
    for t in texts:
        r = probe.safe_call({"op": "parse", "text": t})
        if r.get("ok"):
            if len(r["ast"]) != 1:
                out.append(("err", "parsed into %d statements" % len(r["ast"])))
            else:
                out.append(("ok", r["ast"][0]))
        elif "panic" in r:
            out.append(("err", "panic: " + r["panic"]["msg"]))
        elif "crash" in r or "hang" in r:
            out.append(("err", "crash/hang"))
        else:
            out.append(("err", r.get("err", "?")))
    return out


def judge(res, text, exp, st, compare_leaves):
    kind, payload = st
    if kind != "ok":
        res.violation(["rejected-chain"], {"text": text}, {"error": payload[:300]})
        return
    if payload.get("k") != "SExpr":
        res.violation(["not-an-expression-statement"], {"text": text}, {"ast": payload})
        return
    obs = shape(payload["e"])
    e, o = (exp, obs) if compare_leaves else (strip_leaves(exp), strip_leaves(obs))
    if e != o:
        d = first_diff(e, o)
        res.violation(["grouping", d[0], d[1]], {"text": text}, {"expected": e, "observed": o})


def task_exhaustive(task):
    first_ops = task
    table = refprec.load_table()
    res = core.Result()
    probe = core.Probe()
    names = ["aa", "bb", "cc", "dd", "ee"]
    batch = []

    def flush():
        if not batch:
            return
        sts = parse_many(probe, [b[0] for b in batch])
        for (text, exp, n), st in zip(batch, sts):
            res.case(text, nontrivial=(n >= 2))
            judge(res, text, exp, st, True)
        del batch[:]

    for first in first_ops:
        for n in (1, 2, 3, 4):
            for rest in itertools.product(SRC_OPS, repeat=n - 1):
                ops = (first,) + rest
                items = [("L", names[0])]
                parts = [names[0]]
                for i, op in enumerate(ops):
                    items += [op, ("L", names[i + 1])]
                    parts += [op, names[i + 1]]
                text = " ".join(parts) + ";"
                exp = refprec.climb(items, table)
                batch.append((text, exp, n))
                if len(res.samples) < 2 and n == 4:
                    res.sample({"text": text, "expected": json.dumps(exp)})
                if len(batch) >= 200:
                    flush()
    flush()
    probe.stop()
    res.count("exhaustive_chains", res.evaluations)
    return res


# --- random chains with parentheses and compound closed operands ---

CLOSED = [
    lambda r, i: "x%d" % i,
    lambda r, i: "x%d" % i,
    lambda r, i: '"s%d"' % i,
    lambda r, i: "[x%d, 1 + 2]" % i,
    lambda r, i: "{f = x%d * 2}" % i,
    lambda r, i: "f%d(x%d, 1 - 2)" % (i, i),
    lambda r, i: "int(x%d)" % i,
    lambda r, i: "true",
    lambda r, i: "NULL",
    lambda r, i: "[]",
    lambda r, i: "{}",
    lambda r, i: "x%d{a = 1 || 2}" % i,
    lambda r, i: "1.5",
    lambda r, i: "7",
]
# operands that may follow a '.' (the grammar restricts selector right-hand sides)
DOT_RHS = [lambda r, i: "x%d" % i, lambda r, i: '"q %d"' % i]
# greedy prefix forms: only in the last position of the whole statement
LAST_ONLY = [lambda r, i: "not x%d" % i, lambda r, i: "fail x%d" % i]


def gen_skeleton(r, maxlen, depth=0):
    """-> list alternating operand-slot / op, where a slot is ("slot",) or ("group", skeleton)"""
    n = r.randint(1, maxlen)
    items = []
    for i in range(n + 1):
        if depth < 2 and r.random() < 0.18:
            items.append(("group", gen_skeleton(r, max(1, maxlen // 2), depth + 1)))
        else:
            items.append(("slot",))
        if i < n:
            items.append(r.choice(SRC_OPS))
    return items


def render(r, skel, table, counter, simple, tight, top=True):
    """-> (text, expected tree); numbers leaves left to right"""
    parts = []
    items = []
    for idx, it in enumerate(skel):
        if isinstance(it, str):
            parts.append(it)
            items.append(it)
            continue
        prev_op = skel[idx - 1] if idx > 0 else None
        next_op = skel[idx + 1] if idx + 1 < len(skel) else None
        if it[0] == "group":
            t, e = render(r, it[1], table, counter, simple, tight, False)
            parts.append("(" + t + ")")
            items.append(("G", e))
        else:
            i = counter[0]
            counter[0] += 1
            if simple:
                txt = "x%d" % i
            elif prev_op == ".":
                txt = r.choice(DOT_RHS)(r, i)
            elif next_op == ".":
                txt = "x%d" % i
            elif top and idx == len(skel) - 1 and r.random() < 0.15:
                txt = r.choice(LAST_ONLY)(r, i)
            else:
                txt = r.choice(CLOSED)(r, i)
            parts.append(txt)
            items.append(("L", "x%d" % i if txt == "x%d" % i else "#"))
    out = []
    for idx, p in enumerate(parts):
        if idx % 2 == 1:
            # `-` is a legal bareword character (`a-b` is ONE symbol by the grammar), so it is
            # always written with blanks, like the word operators
            word = p in ("in", "is", "-")
            if word or not tight or r.random() < 0.5:
                out.append(" " + p + " ")
            else:
                out.append(p)
        else:
            out.append(p)
    return "".join(out), refprec.climb(items, table)


def nops(skel):
    return sum(1 if isinstance(s, str) else (nops(s[1]) if s[0] == "group" else 0) for s in skel)


def task_random(task):
    seed, idx, count, maxlen = task
    r = core.rng_for(seed, "c02", idx)
    table = refprec.load_table()
    res = core.Result()
    probe = core.Probe()
    batch = []

    def flush():
        if not batch:
            return
        sts = parse_many(probe, [b[0] for b in batch])
        for (text, exp, n, cmp_leaves), st in zip(batch, sts):
            res.case(text, nontrivial=(n >= 2))
            judge(res, text, exp, st, cmp_leaves)
        del batch[:]

    for c in range(count):
        skel = gen_skeleton(r, maxlen)
        n = nops(skel)
        shapes = []
        for variant in range(3):
            simple = variant == 0
            text, exp = render(r, skel, table, [0], simple, tight=(variant == 2))
            text += ";"
            batch.append((text, exp, n, False))
            shapes.append(strip_leaves(exp))
            if c < 2 and variant == 1:
                res.sample({"text": text, "expected": json.dumps(strip_leaves(exp))})
        res.count("skeletons")
        res.count("ops_in_random_chains", n)
        if len(batch) >= 150:
            flush()
    flush()
    probe.stop()
    return res


def run(tier, seed, t0):
    refprec.load_table()
    tasks = [("exh", (op,)) for op in SRC_OPS]
    nrand = core.tier_pick(tier, 7000, 170000)     # x3 operand assignments each
    shards = 32 if tier == "quick" else 64
    per = nrand // shards
    rtasks = [("rand", (seed, i, per, 10)) for i in range(shards)]
    res = core.run_parallel(dispatch, tasks + rtasks)
    exh = res.counters.get("exhaustive_chains", 0)
    extra = {"exhaustive_space": "18+18^2+18^3+18^4 = 111150 chains", "exhaustive_chains_judged": exh,
             "published_table": refprec.load_table()}
    if exh != 111150:
        raise core.HarnessBroken("exhaustive space incomplete: %d" % exh)
    return core.finish("C02", tier, seed, res, RULE, t0, extra=extra, exhaustive=True,
                       assumptions=["the table in docsite/site/content/reference/expressions.md is the specification",
                                    "`=~` in the table is the documented spelling of the `~` token"],
                       replay_known=replay_known)


def dispatch(task):
    kind, args = task
    if kind == "exh":
        return task_exhaustive(args)
    return task_random(args)


def check_text(text):
    """re-judge one chain text whose operands are simple symbols: expected tree is recomputed from the text"""
    import re
    table = refprec.load_table()
    toks = re.findall(r"\(|\)|%%|&&|\|\||==|!=|>=|<=|!~|[-+*/<>~.]|[A-Za-z_][A-Za-z0-9_]*", text.rstrip(";"))
    pos = [0]

    def seq():
        items = []
        while pos[0] < len(toks) and toks[pos[0]] != ")":
            t = toks[pos[0]]
            pos[0] += 1
            if t == "(":
                items.append(("G", seq()))
                pos[0] += 1
            elif t in table and (len(items) % 2 == 1):
                items.append(t)
            else:
                items.append(("L", t))
        return refprec.climb(items, table)

    exp = seq()
    res = core.Result()
    probe = core.Probe()
    st = parse_many(probe, [text])[0]
    probe.stop()
    judge(res, text, exp, st, True)
    return res


def replay_known(entry):
    w = entry.get("witness", {})
    if "text" not in w:
        return None
    return bool(check_text(w["text"]).violations)


def replay(path, tier, seed):
    d = json.load(open(path))
    res = check_text(d["witness"]["text"])
    if res.violations:
        print("VIOLATION property=C02 replay=%s" % path)
        print(json.dumps(res.violations[0], indent=1))
        return 1
    print("replay: no violation")
    return 0
