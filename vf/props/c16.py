"""C16 - a file builds the same alone, in any batch, in any order, any number of times."""
import itertools
import json
import os
import posixpath
import re
import shutil

from .. import core

RULE = ("generated projects of 2..6 files: entry files with `out` statements, shared libraries, files that are both "
        "built and imported (with and without an `out` of their own), failing files (syntax error, type error, run-time "
        "error, failing `out`), the same file listed twice, and `-r <dir>`; for every file the outcome alone (fresh "
        "process, fresh copy of the project: failed or not, artifact bytes) is the reference; every permutation of the "
        "file list up to 4 files (24 random permutations beyond) is built in one `ucg build f1 .. fn` invocation, each "
        "configuration twice, and each file's outcome in the batch (failure = stderr names the file in `Error building "
        "file: <path>`; artifact bytes) must equal its outcome alone; the exit status must be 1 iff some file fails "
        "alone. distinct = distinct (project, permutation); non-trivial = a batch of >= 2 files containing a failing "
        "file, a shared library or a file that is both built and imported.")
RULE += (" " + 'Also: the shared library has a relative import of its own and files of the same relative name with other types sit next to the importers (one compatible, one not); a different library under the same relative name one directory down; the same base name in two directories.')
RULE += (" " + 'Every command-line file also exports a function, a module and a tuple; files that import another command-line file call, instantiate and read them (also through map).')
RULE += (" " + 'In 20 % of the projects the shared library names an unloadable file (syntax error, type error, missing) in a place that is never evaluated, also one import further down.')
RULE += (" " + 'In another 16 % of the projects the shared library fails at run time after making its bindings (division by zero, fail, index, select, cast, failing out).')
RULE += (" " + 'Round 8: four more kinds of command-line file carry assert statements (holding, false, malformed, in an imported library); a build evaluates them like any statement and makes the same of them alone and in every batch.')

KINDS = ["entry", "entry-imports-lib", "entry-imports-local-lib", "entry-imports-local-lib", "entry-imports-entry", "lib-no-out", "syntax-error", "type-error", "runtime-error",
         "failing-out", "entry-yaml", "include-user",
         # files with assert statements (a build evaluates them like any other statement): holding, false, malformed, and in a
         # library: whatever a build makes of them, it makes the same of them alone and in every batch
         "entry-false-assert", "entry-true-assert", "entry-malformed-assert", "entry-imports-asserting-lib"]


def gen_project(r):
    """-> (files: rel -> text, buildable: [rel], roles: rel -> kind)"""
    n = r.randint(2, 6)
    files = {"lib/shared.ucg": ("let traceid = TRACE \"shared\";\nlet val = 7;\nlet mk = func (x) => {v = x, s = \"s\"};\n"
                                # a relative import of its own: lib/defaults.ucg, whoever imports this library and from wherever
                                "let d = import \"defaults.ucg\";\nlet port1 = d.port + 1;\n"),
             "lib/defaults.ucg": "let port = 8080;\n",
             # files of the same name next to the importers, with other types: never the ones the library means
             "defaults.ucg": "let port = \"8080\";\n",
             "sub/defaults.ucg": "let port = 9090;\n",
             "lib/data.txt": "payload",
             "lib/checks.ucg": "let lim = 3;\nassert {ok = lim > 5, desc = \"lim is large enough\"};\nlet after = lim + 1;\n",
             # a DIFFERENT library under the same relative name one directory down: same import string, other file, other types
             "sub/lib/shared.ucg": "let traceid = TRACE \"sub-shared\";\nlet val = \"seven\";\nlet mk = func (x, y) => [x, y];\nlet only_sub = true;\n",
             "sub/lib/data.txt": "other payload"}
    if r.random() < 0.2:
        # the shared library names a file that cannot be loaded, in a place that is never evaluated (an unused function, an
        # untaken select arm, a module that nobody instantiates): whoever imports the library fails when its imports are
        # linked, alone and in every batch alike
        how = r.choice(["syntax", "missing", "type"])
        files["lib/shared.ucg"] += r.choice([
            "let lazy = func () => (import \"broken.ucg\").v;\n",
            "let lazy = select (\"a\", 0) => {a = 1, b = (import \"broken.ucg\").v};\n",
            "let lazy = module {} => (r) { let r = (import \"broken.ucg\").v; };\n",
            # one level further down
            "let lazy = func () => (import \"deeper.ucg\").v;\n",
        ])
        files["lib/deeper.ucg"] = "let v = 1;\nlet lazy = func () => (import \"broken.ucg\").v;\n"
        if how == "syntax":
            files["lib/broken.ucg"] = "let v = ;\n"
        elif how == "type":
            files["lib/broken.ucg"] = "let v = 1 + \"s\";\n"
    elif r.random() < 0.2:
        # the shared library fails at RUN TIME, after it has made the bindings its importers use: every importer fails, alone
        # and in every batch alike, however many of them there are
        files["lib/shared.ucg"] += r.choice([
            "let boom = 1 / (val - 7);\n",
            "let boom = fail \"shared library is broken\";\n",
            "let boom = [1].(val);\n",
            "let boom = select (\"nokey\") => {a = 1};\n",
            "let boom = int(\"x\" + \"1\");\n",
            "out toml {v = NULL};\n",
        ])
    roles = {}
    names = []
    for i in range(n):
        kind = r.choice(KINDS)
        d = r.choice(["", "sub"])
        base = "b%d.ucg" % i
        if names and r.random() < 0.25:
            # the same base name as an earlier file, in the other directory
            cand = posixpath.basename(r.choice(names))
            other = posixpath.join(d, cand) if d else cand
            if other not in files:
                base = cand
        rel = posixpath.join(d, base) if d else base
        up = "../" if d else ""
        if kind == "entry":
            text = "let v = %d;\nout json {v = v, name = \"b%d\"};\n" % (i, i)
        elif kind == "entry-yaml":
            text = "let v = [%d, \"x\"];\nout yaml {v = v};\n" % i
        elif kind == "entry-imports-lib":
            text = "let l = import \"%slib/shared.ucg\";\nlet p2 = l.port1 + 1;\nout json {v = l.val + %d, t = l.mk(%d), p = p2, d = l.d.port + 0};\n" % (up, i, i)
        elif kind == "entry-imports-local-lib":
            # resolved against the importing file: lib/shared.ucg for a file in the root, sub/lib/shared.ucg for a file in sub
            text = ("let l = import \"lib/shared.ucg\";\nlet s = include str \"lib/data.txt\";\n"
                    "out json {v = l.val, n = %d, s = s, sub = \"only_sub\" in l};\n" % i)
        elif kind == "entry-imports-entry" and names:
            tgt = r.choice(names)
            rel_t = posixpath.relpath(tgt, d or ".")
            # uses what the other command-line file exports: a function, a module and plain data
            text = ("let o = import \"%s\";\nout json {from = \"b%d\", n = %d, h = o.helper(1), m = o.hmod{a = 2}, d = o.datum.n, "
                    "hs = map(o.helper, [1, 2])};\n" % (rel_t, i, i))
        elif kind == "lib-no-out":
            text = "let l = import \"%slib/shared.ucg\";\nlet val = l.val * %d;\n" % (up, i + 1)
        elif kind == "syntax-error":
            text = "let v = %d +;\nout json {v = v};\n" % i
        elif kind == "type-error":
            text = "let v = %d + \"s\";\nout json {v = v};\n" % i
        elif kind == "runtime-error":
            text = "let f = func (x) => x.nope;\nlet v = f({a = %d});\nout json {v = v};\n" % i
        elif kind == "failing-out":
            text = "let v = %d;\nout toml {v = NULL};\n" % i
        elif kind == "entry-false-assert":
            text = "let v = %d;\nassert {ok = v < 0, desc = \"b%d: v is negative\"};\nout json {v = v, checked = true};\n" % (i, i)
        elif kind == "entry-true-assert":
            text = "let v = %d;\nassert {ok = v >= 0, desc = \"b%d: v is not negative\"};\nout json {v = v, checked = true};\n" % (i, i)
        elif kind == "entry-malformed-assert":
            text = "let v = %d;\nlet mk = func (x) => {okay = x};\nassert mk(v);\nout json {v = v, checked = true};\n" % i
        elif kind == "entry-imports-asserting-lib":
            text = "let c = import \"%slib/checks.ucg\";\nout json {v = c.after + %d};\n" % (up, i)
        elif kind == "include-user":
            text = "let s = include str \"%slib/data.txt\";\nout json {s = s, n = %d};\n" % (up, i)
        else:
            kind = "entry"
            text = "let v = %d;\nout json {v = v};\n" % i
        if kind != "syntax-error":
            # every command-line file also exports something other command-line files may use
            text = ("let helper = func (x) => x + %d;\nlet hmod = module {a = 1} => (r) { let r = mod.a + %d; };\nlet datum = {n = %d};\n" % (i, i, i)) + text
        files[rel] = text
        roles[rel] = kind
        names.append(rel)
    return files, names, roles


def write_files(root, files):
    for rel, text in files.items():
        p = os.path.join(root, rel)
        os.makedirs(os.path.dirname(p), exist_ok=True)
        with open(p, "w", encoding="utf-8") as f:
            f.write(text)


def artifacts(root, files):
    snap = core.snapshot_dir(root)
    out = {}
    for rel, (size, sha) in snap.items():
        if rel not in files:
            out[rel] = open(os.path.join(root, rel), "rb").read()
    return out


def clean_artifacts(root, files):
    for rel in list(core.snapshot_dir(root)):
        if rel not in files:
            os.remove(os.path.join(root, rel))


INFO_LINE = re.compile(r"^(TRACE:|Skipping |Build results in no artifacts|including an empty file|\s*$)")


def failed_files(ev, root, names):
    """per-file verdict from the merged stdout+stderr stream: the lines between `Building <f>` and the next
    `Building` belong to <f>; a section with anything but informational lines is a failure"""
    bad = set()
    cur = None
    in_trace = False
    for line in ev["stdout"].split("\n"):
        m = re.match(r"^Building (\S+)$", line)
        if m:
            p = os.path.normpath(os.path.join(root, m.group(1)))
            cur = None
            for n in names:
                if p == os.path.normpath(os.path.join(root, n)):
                    cur = n
            in_trace = False
            continue
        if cur is None:
            continue
        if line.startswith("TRACE:"):
            # a TRACE of a composite value spans several lines, up to the one carrying the position
            in_trace = " at file: " not in line and " at line: " not in line
            continue
        if in_trace:
            if " at file: " in line or " at line: " in line:
                in_trace = False
            continue
        if INFO_LINE.match(line):
            continue
        bad.add(cur)
    return bad


def own_artifact(rel):
    return os.path.splitext(rel)[0]


def alone_outcomes(tp, files, names):
    out = {}
    root = tp.path("alone")
    for n in sorted(set(names)):
        if os.path.exists(root):
            shutil.rmtree(root)
        write_files(root, files)
        ev = core.run_cli(["build", n], root, timeout=30.0)
        arts = artifacts(root, files)
        out[n] = {"failed": ev["exit"] != 0, "exit": ev["exit"], "signal": ev["signal"], "hang": bool(ev.get("hang")),
                  "artifacts": {k: v for k, v in arts.items()}, "stderr": ev["stderr"]}
    if os.path.exists(root):
        shutil.rmtree(root)
    return out


def classify_roles(order, roles, files):
    s = set()
    for n in order:
        s.add(roles[n])
    if len(order) != len(set(order)):
        s.add("listed-twice")
    # built and imported?
    for n in order:
        for m in order:
            if m != n and ("\"%s\"" % posixpath.basename(n)) in files[m] or (m != n and posixpath.basename(n) in files[m] and "import" in files[m]):
                s.add("built-and-imported")
    return s


def judge_batch(tp, files, names, roles, order, alone, res, argv_extra=None):
    root = tp.path("batch")
    results = []
    for rep in range(2):
        if os.path.exists(root):
            shutil.rmtree(root)
        write_files(root, files)
        ev = core.run_cli(["build"] + (argv_extra or list(order)), root, timeout=60.0, merge=True)
        arts = artifacts(root, files)
        results.append((ev, arts))
    witness = {"files": files, "order": list(order), "argv": argv_extra or list(order)}
    (ev, arts), (ev2, arts2) = results
    if ev.get("hang") or ev["signal"] or ev["exit"] not in (0, 1):
        res.violation(["batch-crash-or-hang"], witness, {"exit": ev["exit"], "signal": ev["signal"], "stderr": ev["stderr"][-300:]})
        return
    if (ev["exit"], arts) != (ev2["exit"], arts2):
        res.violation(["same-invocation-twice-differs"], witness, {"exits": [ev["exit"], ev2["exit"]], "artifacts": [sorted(arts), sorted(arts2)]})
        return
    bad = failed_files(ev, root, names)
    sroles = classify_roles(order, roles, files)
    any_fail_alone = any(alone[n]["failed"] for n in set(order))
    for n in dict.fromkeys(order):
        a = alone[n]
        if a["signal"] or a["hang"]:
            res.count("alone-run-crashed (left to C04)")
            continue
        failed_in_batch = n in bad
        if a["failed"] != failed_in_batch:
            # a failing file that is not named in stderr (e.g. syntax errors): fall back on its own artifact
            art = [k for k in a["artifacts"] if own_artifact(k) == own_artifact(n)]
            if a["failed"] and not failed_in_batch and not any(own_artifact(k) == own_artifact(n) for k in arts):
                # failed alone, no artifact in the batch either, but stderr did not name it: check that SOME error mentions it
                if False:
                    continue
            why = "fails-in-batch-only" if failed_in_batch else "succeeds-in-batch-only"
            msg = ""
            m = re.search(r"Error building file: \S*%s\n([^\n]*)" % re.escape(posixpath.basename(n)), ev["stdout"])
            if m:
                msg = re.sub(r" at file: .*", "", m.group(1))[:60]
            res.violation(["outcome-differs-from-alone", why, msg, "roles:" + "+".join(sorted(sroles & {"listed-twice", "built-and-imported", "failing-out", "entry-imports-entry"}))],
                          witness, {"file": n, "alone_failed": a["failed"], "batch_output": ev["stdout"][-800:], "alone_stderr": a["stderr"][-300:]})
            return
        # artifact bytes of the file's own artifact
        for k, v in a["artifacts"].items():
            if own_artifact(k) != own_artifact(n):
                continue
            if arts.get(k) != v:
                res.violation(["artifact-differs-from-alone"], witness, {"file": n, "artifact": k, "alone": v.decode("utf-8", "replace")[:200],
                                                                        "batch": (arts.get(k) or b"<missing>").decode("utf-8", "replace")[:200]})
                return
    if (ev["exit"] == 1) != any_fail_alone:
        res.violation(["exit-status-differs", "batch-exit-%s" % ev["exit"]], witness, {"failing_alone": sorted(n for n in set(order) if alone[n]["failed"]),
                                                                                        "output": ev["stdout"][-400:]})
        return
    res.count("batch-ok")


def task(args):
    seed, idx, count = args
    r = core.rng_for(seed, "c16", idx)
    res = core.Result()
    for c in range(count):
        files, names, roles = gen_project(r)
        with core.TempProject("c16") as tp:
            alone = alone_outcomes(tp, files, names)
            sel = names[:4] if len(names) <= 4 else r.sample(names, 4)
            perms = list(itertools.permutations(sel))
            if len(names) > 4:
                perms = perms[:12] + [tuple(r.sample(names, len(names))) for _ in range(12)]
            extra = []
            if r.random() < 0.5:
                dup = list(sel[:2]) + [sel[0]]
                extra.append(tuple(dup))
            for order in perms + extra:
                kinds = set(roles[n] for n in order)
                nontriv = len(order) >= 2 and bool(kinds & {"syntax-error", "type-error", "runtime-error", "failing-out", "entry-imports-lib",
                                                            "entry-imports-entry", "lib-no-out"})
                res.case((json.dumps(files, sort_keys=True), order), nontrivial=nontriv)
                judge_batch(tp, files, names, roles, order, alone, res)
            # -r on the project root: every .ucg file is built (incl. lib/shared.ucg)
            if r.random() < 0.3:
                allnames = sorted(k for k in files if k.endswith(".ucg"))
                alone_all = alone_outcomes(tp, files, allnames)
                res.case((json.dumps(files, sort_keys=True), "-r"), nontrivial=True)
                judge_batch(tp, files, allnames, dict({k: ("syntax-error" if k.endswith("broken.ucg") else "lib-no-out") for k in allnames}, **roles), allnames, alone_all, res, argv_extra=["-r", "."])
        if c < 1 and idx < 2:
            res.sample({"files": files, "roles": roles})
    return res


def run(tier, seed, t0):
    q = tier == "quick"
    n = 96 if q else 1600
    sh = 32 if q else 64
    tasks = [(seed, i, max(1, n // sh)) for i in range(sh)]
    res = core.run_parallel(task, tasks)
    return core.finish("C16", tier, seed, res, RULE, t0, replay_known=replay_known,
                       assumptions=["a file failed in a batch iff stderr contains `Error building file: <its path>`",
                                    "artifacts are compared per file by the artifact's base name"])


def check_witness(w):
    res = core.Result()
    files = w["files"]
    order = w["order"]
    names = sorted(set(order))
    roles = {n: "entry" for n in files}
    with core.TempProject("c16r") as tp:
        alone = alone_outcomes(tp, files, names)
        judge_batch(tp, files, names, roles, order, alone, res, argv_extra=w.get("argv") if w.get("argv") != order else None)
    return res


def replay_known(entry):
    w = entry.get("witness", {})
    if "files" not in w:
        return None
    res = check_witness(w)
    if entry.get("status") == "known":
        return any(v["signature"][:2] == entry["signature"][:2] for v in res.violations)
    return bool(res.violations)


def replay(path, tier, seed):
    d = json.load(open(path))
    res = check_witness(d["witness"])
    if res.violations:
        print("VIOLATION property=C16 replay=%s" % path)
        print(json.dumps(res.violations[0], indent=1)[:1500])
        return 1
    print("replay: no violation")
    return 0
