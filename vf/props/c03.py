"""C03 - JSON / YAML / TOML output decodes back to the value that was output."""
import json
import re

from .. import core, values, decoders, gen

RULE = ("value trees from vf/values.py (NULL, booleans, i64 incl. +-2^53+-1 and the extremes, finite floats incl. "
        "subnormals and -0.0, NaN/+-inf, a pool of ~130 format-significant strings plus random Unicode, keys that need "
        "quoting, nested empties, mixed lists, depth <= 5) converted by the real json / yaml / toml / yamlmulti "
        "converters (a) directly through ConverterRegistry (reaches values no literal can express) and (b) through "
        "generated programs (`convert <fmt> v` in eval and `out <fmt> v;` with the real `ucg build`); the output is "
        "read by CPython json (NaN/Infinity and duplicate keys rejected), tomllib, or libyaml's event parser with a "
        "YAML 1.2 core-schema resolver, and compared: nesting, list order, key set, strings code point for code point, "
        "booleans, nulls, numbers as exact rationals. Unrepresentable values (JSON: non-finite float, constraint; "
        "TOML: NULL anywhere, non-table top level, constraint; YAML: constraint) must be errors. distinct = distinct "
        "(format, value); non-trivial = a container or a string/number needing care (non-ASCII, hostile pool, |n|>2^53).")
RULE += (" " + 'Also: a few values far larger than any buffer per run (strings of 4 KiB .. 70,000 characters with characters that need escaping, lists of 1,000 / 5,000 items, tuples of 300 / 1,500 fields).')

FORMATS = ["json", "yaml", "toml", "yamlmulti"]


def representable(fmt, v):
    """True / False / None (= the reference does not settle it: either outcome is accepted)"""
    if values.has_constraint(v):
        return False
    if fmt == "json":
        return not values.has_nonfinite(v)
    if fmt in ("yaml", "yamlmulti"):
        return True
    if fmt == "toml":
        if not (isinstance(v, dict) and "T" in v):
            return False
        if values.has_null(v):
            return False
        # arrays mixing types were illegal before TOML 1.0: either outcome is accepted
        for x in values.walk(v):
            if isinstance(x, list) and len(set(kind(e) for e in x)) > 1:
                return None
            # tables below the first array level need inline tables, which the serializer in use
            # cannot write: an error is accepted there (never invalid or altered output)
            if isinstance(x, list) and any(isinstance(e, list) and any(isinstance(y, dict) and "T" in y for y in values.walk(e)) for e in x):
                return None
        return True
    raise ValueError(fmt)


def kind(e):
    if e is None:
        return "null"
    if isinstance(e, bool):
        return "bool"
    if isinstance(e, str):
        return "str"
    if isinstance(e, list):
        return "list"
    return "int" if "i" in e else ("float" if "f" in e else "tuple")


def nontrivial(v):
    for x in values.walk(v):
        if isinstance(x, (list,)) or (isinstance(x, dict) and "T" in x):
            return True
        if isinstance(x, str) and (x in values.HOSTILE_STRINGS or any(ord(c) > 127 for c in x)):
            return True
        if isinstance(x, dict) and "i" in x and abs(int(x["i"])) > 2 ** 53:
            return True
        if isinstance(x, dict) and "f" in x:
            return True
    return False


def decode(fmt, text, stats):
    if fmt == "json":
        return decoders.decode_json(text)
    if fmt == "toml":
        return decoders.decode_toml(text)
    if fmt == "yaml":
        return decoders.decode_yaml(text, stats)
    return decoders.decode_yaml_multi(text, stats)


def classify_leaf(v, path_kind, exp, got):
    """signature detail for a mismatch"""
    if path_kind == "number":
        if isinstance(exp, decoders.Num) and exp.is_int and exp.frac is not None and abs(exp.frac) > 2 ** 53:
            return "int-beyond-2^53"
        if isinstance(exp, decoders.Num) and exp.special:
            return "non-finite"
        return "number"
    return path_kind


def judge_output(fmt, v, out_bytes, res, stats, route, witness):
    try:
        text = out_bytes.decode("utf-8")
    except UnicodeDecodeError:
        res.violation(["output-not-utf8", fmt], witness, {})
        return
    try:
        got = decode(fmt, text, stats)
    except decoders.DecodeError as e:
        res.violation(["output-rejected-by-independent-decoder", fmt, cls_err(str(e))], witness, {"output": text[:400], "error": str(e)[:200]})
        return
    exp = decoders.expected(v)
    if fmt == "yamlmulti":
        exp = exp if isinstance(exp, list) else [exp]
        if isinstance(got, list) and len(got) != len(exp):
            res.violation(["yamlmulti-document-count"], witness, {"output": text[:400], "expected_docs": len(exp), "decoded_docs": len(got)})
            return
    d = decoders.diff(exp, got)
    if d:
        path, k, a, b = d
        res.violation(["decodes-to-different-data", fmt, classify_leaf(v, k, a, b)], witness,
                      {"output": text[:400], "path": path, "expected": repr(a)[:120], "decoded": repr(b)[:120]})
        return
    res.count("roundtrip-ok:%s:%s" % (route, fmt))


def cls_err(msg):
    import re
    return re.sub(r"[0-9]+", "N", msg)[:40]


def task_direct(args):
    seed, idx, count = args
    r = core.rng_for(seed, "c03d", idx)
    res = core.Result()
    probe = core.Probe()
    stats = {}
    for c in range(count):
        fmt = FORMATS[c % 4]
        top_tuple = fmt == "toml" and r.random() < 0.9
        v = values.rand_value(r, depth=r.choice([1, 2, 3, 5]), nonfinite=0.03 if fmt != "toml" else 0.02,
                              nulls=(fmt != "toml" or r.random() < 0.1), top_tuple=top_tuple)
        if fmt == "yamlmulti" and r.random() < 0.7 and not isinstance(v, list):
            v = [v, values.rand_value(r, 2), values.rand_value(r, 1)][:r.randint(1, 3)]
        if r.random() < 0.01:
            v = {"T": [["c", {"K": [{"ri": ["1", "5"]}]}]]}
        if r.random() < 0.004:
            # far larger than any buffer: a long string (with characters that need escaping now and then), a long list,
            # a tuple with many fields
            n = r.choice([4095, 4096, 4097, 8192, 65535, 65536, 70000])
            big = "".join(r.choice(["a", "b", " ", "\u00e9", "x", "y", "\"", "\\", "\n"] if i % 97 == 0 else ["a", "b", "c"]) for i in range(n))
            v = {"T": [["s", big], ["l", [{"i": str(i)} for i in range(r.choice([1000, 5000]))]],
                       ["t", {"T": [["k%d" % i, big[:20]] for i in range(r.choice([300, 1500]))]}]]}
            if fmt == "yamlmulti":
                v = [v, {"T": [["a", {"i": "1"}]]}]
            res.count("big-values")
        rep = representable(fmt, v)
        witness = {"format": fmt, "value": v, "route": "convert-request"}
        res.case((fmt, json.dumps(v, sort_keys=True)), nontrivial=nontrivial(v))
        rr = probe.safe_call({"op": "convert", "format": fmt, "value": v})
        if "panic" in rr or "crash" in rr or "hang" in rr or "inconclusive" in rr:
            res.count("crash-left-to-C04")
            continue
        if rr.get("ok"):
            if rep is False:
                res.violation(["unrepresentable-value-produced-output", fmt, why_unrep(fmt, v)], witness,
                              {"output": core.b64d(rr["b64"]).decode("utf-8", "replace")[:300]})
                continue
            judge_output(fmt, v, core.b64d(rr["b64"]), res, stats, "direct", witness)
        else:
            if rep is True:
                res.violation(["representable-value-rejected", fmt, cls_err(rr.get("err", ""))], witness, {"err": rr.get("err", "")[:200]})
            elif rep is False:
                res.count("unrepresentable-rejected:" + fmt)
            else:
                res.count("unsettled-representability-rejected:" + fmt)
        if c < 2 and idx < 2:
            res.sample({"format": fmt, "value": v})
    for k, n in stats.items():
        res.count(k, n)
    probe.stop()
    return res


def why_unrep(fmt, v):
    if values.has_constraint(v):
        return "constraint"
    if values.has_nonfinite(v) and fmt == "json":
        return "non-finite-float"
    if fmt == "toml" and values.has_null(v):
        return "null"
    return "non-table-top-level"


# --- route (b): through programs ---

def lit_ok(v):
    """can this tagged value be written as a ucg literal expression?  (no NaN/inf, no constraint)"""
    for x in values.walk(v):
        if isinstance(x, dict) and "f" in x:
            f = values.to_float(x)
            if f != f or f in (float("inf"), float("-inf")):
                return False
        if isinstance(x, dict) and "K" in x:
            return False
        if isinstance(x, str) and "\x00" in x:
            return False
    return True


def to_expr(v):
    """tagged value -> generator AST expression"""
    if v is None:
        return ("null",)
    if isinstance(v, bool):
        return ("bool", v)
    if isinstance(v, str):
        return ("str", v)
    if isinstance(v, list):
        return ("list", [to_expr(x) for x in v])
    if "i" in v:
        n = int(v["i"])
        if n == -(2 ** 63):
            return ("bin", "-", ("bin", "-", ("int", 0), ("int", 2 ** 63 - 1)), ("int", 1))
        return ("int", n) if n >= 0 else ("bin", "-", ("int", 0), ("int", -n))
    if "f" in v:
        f = values.to_float(v)
        txt = dec_text(abs(f))
        if f < 0 or (f == 0 and str(f).startswith("-")):
            return ("bin", "-", ("float", "0.0"), ("float", txt))
        return ("float", txt)
    return ("tuple", [(k, to_expr(x)) for k, x in v["T"]])


def dec_text(f):
    """exact-enough positional decimal literal for a non-negative finite float (no exponent in the grammar)"""
    from decimal import Decimal
    s = format(Decimal(repr(f)), "f")
    if "." not in s:
        s += ".0"
    return s


def task_program(args):
    seed, idx, count = args
    r = core.rng_for(seed, "c03p", idx)
    res = core.Result()
    probe = core.Probe()
    stats = {}
    for c in range(count):
        fmt = FORMATS[c % 4]
        v = values.rand_value(r, depth=r.choice([1, 2, 3]), nonfinite=0.0, nulls=(fmt != "toml"),
                              top_tuple=(fmt == "toml" or r.random() < 0.5))
        if not lit_ok(v):
            continue
        if any(isinstance(x, dict) and "f" in x and values.to_float(x) == 0 and str(values.to_float(x)).startswith("-")
               for x in values.walk(v)):
            continue      # 0.0 - 0.0 is +0.0: -0.0 has no literal
        rep = representable(fmt, v)
        if rep is not True:
            continue
        e = to_expr(v)
        text = gen.to_text([("let", "v", e), ("let", "s", ("convert", fmt, ("sym", "v")))])
        witness = {"format": fmt, "value": v, "route": "convert-expression", "text": text}
        res.case((fmt, "prog", json.dumps(v, sort_keys=True)), nontrivial=nontrivial(v))
        rr = probe.safe_call({"op": "eval", "text": text, "reuse_max": 200})
        if "panic" in rr or "crash" in rr or "hang" in rr or "inconclusive" in rr:
            res.count("crash-left-to-C04")
            continue
        if not rr.get("ok"):
            res.violation(["representable-value-rejected", fmt, "via-program"], witness, {"err": rr.get("err", "")[:300]})
            continue
        got = dict((k, x) for k, x in rr["val"]["T"])
        # the literal must have produced the intended value (guards the harness, not ucg)
        from .. import refint
        if not refint.same(refint.strip_r(got.get("v")), strip(v)):
            res.count("literal-did-not-produce-the-intended-value (skipped)")
            continue
        judge_output(fmt, v, got["s"].encode("utf-8"), res, stats, "convert-expr", witness)
        if c % 10 == 0:
            with core.TempProject("c03") as tp:
                tp.write("f.ucg", gen.to_text([("let", "v", e), ("out", fmt, ("sym", "v"))]))
                ev = core.run_cli(["build", "f.ucg"], tp.root)
                ext = {"json": "json", "yaml": "yaml", "yamlmulti": "yaml", "toml": "toml"}[fmt]
                try:
                    data = open(tp.path("f." + ext), "rb").read()
                except OSError:
                    data = None
                if ev["exit"] != 0 or data is None:
                    res.violation(["out-statement-failed", fmt], witness, {"stderr": ev["stderr"][:300]})
                else:
                    w2 = dict(witness)
                    w2["route"] = "out-statement"
                    judge_output(fmt, v, data, res, stats, "out-statement", w2)
    for k, n in stats.items():
        res.count(k, n)
    probe.stop()
    return res


def strip(v):
    return v


def dispatch(task):
    kind_, args = task
    return {"direct": task_direct, "program": task_program}[kind_](args)


def run(tier, seed, t0):
    q = tier == "quick"
    n = 24000 if q else 400000
    sh = 32 if q else 128
    tasks = [("direct", (seed, i, n // sh)) for i in range(sh)]
    npg = 3000 if q else 40000
    tasks += [("program", (seed, i, npg // 16)) for i in range(16)]
    res = core.run_parallel(dispatch, tasks)
    extra = None
    if not q:
        # sanitizer supplement: the same converters, then the importers on their output, interpreted by Miri
        from .. import sanitizers
        m = sanitizers.fold_miri(res, "C03")
        for line in m.get("mismatch_lines", []):
            res.violation(["round-trip-differs-under-miri", re.sub(r"[0-9]+ bytes", "", line)[:60]], {"tool": "miri", "line": line}, {})
        extra = {"sanitizer_supplement": {"tool": "cargo +nightly miri run (harness bin miri_conv, 20 shards)", "status": m["status"],
                                          "conversions_interpreted": m["conversions"], "imports_interpreted": m["imports"],
                                          "undefined_behaviour_reports": len(m["ub_reports"]), "round_trip_mismatches": m["mismatches"]}}
    if not decoders.HAVE_LIBYAML:
        res.notes.append("libyaml not available: pure-python yaml parser used")
    return core.finish("C03", tier, seed, res, RULE, t0, replay_known=replay_known, extra=extra,
                       assumptions=["independent decoders are trusted: CPython json, tomllib (TOML 1.0), libyaml event parser + my YAML 1.2 core-schema resolver",
                                    "TOML arrays mixing types: either an error or a correct round trip is accepted (illegal before TOML 1.0)",
                                    "duplicate field names are not generated (no target format can carry them)"])


def check_witness(w):
    res = core.Result()
    probe = core.Probe()
    stats = {}
    try:
        fmt, v = w["format"], w["value"]
        rep = representable(fmt, v)
        rr = probe.safe_call({"op": "convert", "format": fmt, "value": v})
        if rr.get("ok"):
            if rep is False:
                res.violation(["unrepresentable-value-produced-output", fmt, why_unrep(fmt, v)], w, {})
            else:
                judge_output(fmt, v, core.b64d(rr["b64"]), res, stats, "replay", w)
        elif "err" in rr and rep is True:
            res.violation(["representable-value-rejected", fmt, cls_err(rr.get("err", ""))], w, {})
    finally:
        probe.stop()
    return res


def replay_known(entry):
    w = entry.get("witness", {})
    if "format" not in w:
        return None
    res = check_witness(w)
    if entry.get("status") == "known":
        return any(v["signature"] == entry["signature"] for v in res.violations)
    return bool(res.violations)


def replay(path, tier, seed):
    d = json.load(open(path))
    if d["witness"].get("tool") == "miri":
        from .. import sanitizers
        res = core.Result()
        sanitizers.fold_miri(res, "C03")
    else:
        res = check_witness(d["witness"])
    if res.violations:
        print("VIOLATION property=C03 replay=%s" % path)
        print(json.dumps(res.violations[0], indent=1)[:1500])
        return 1
    print("replay: no violation")
    return 0
