"""C17 - syntax and evaluation errors point at the statement that causes them."""
import json
import os
import re
import shutil

from .. import core, gen, progs

RULE = ("valid generated programs of 3..12 statements, each statement laid out over several lines (random line breaks "
        "and indentation, LF/CRLF), with exactly one fault injected: kinds = syntax (missing operand, doubled operator, "
        "missing `=`, unclosed ( / [ / { before `;`, illegal character), unknown name, run-time type mismatch, missing "
        "field, index out of range, unhandled select case, failed cast, fail; hosts = bare, tuple field, list element, "
        "call argument, function body (called from a later statement), select arm; at every statement position. "
        "Oracle: the first `line: N column: M` of the diagnostic (eval_string, build of a file, `ucg build`) lies "
        "inside the source span of the faulty statement as recorded by the layout engine; for a fault in a function "
        "body some `VIA:` position lies inside the calling statement; metamorphic: with k lines of unrelated "
        "statements inserted before, the position moves by exactly k lines and 0 columns; inserted after, not at "
        "all. distinct = distinct program texts; non-trivial = the fault is not in the first statement or is nested.")
RULE += (" " + 'Fault families beyond literals: operands that are names bound earlier, results of calling a function defined earlier, fields / elements selected from composites built earlier, results of instantiating a module defined earlier; faults inside the expression of a format template; run-on faults lacking closer and `;`; invalid regex, missing include, missing import.')
RULE += (" " + 'Hosts whose fault only happens when a later statement runs them: function body called directly, through map / filter / reduce (list and tuple forms), through another function; module body and module out expression instantiated later.')
RULE += (" " + 'Module parameters overridden with a value of another type (named operand, call result, literal, selected operand).')
RULE += (" " + 'Let statements whose value does not fit a constraint given by a name bound earlier (exemplar, named constraint, tuple exemplar).')
RULE += (" " + "Calls of a function that uses its parameter as an int with an argument of another type that is a name, selected field, expression of names, call result or literal (judged when the checker finds it statically; found at run time the fault is in the callee's body: no verdict).")
RULE += (" " + 'Round 8: host function-body-via-call-chain: the faulty function is reached through 1, 2, 4, 7, 8, 9, 10, 13, 21 or 40 helper functions, each defined in a statement of its own; the primary position stays in the faulty statement and the top-level calling statement is listed under VIA however long the chain is.')
RULE += (" " + 'Every 5th single-fault program is also built as a LIBRARY that another file imports with a top-level let: the primary position must name the library file and lie inside the faulty statement there, not at the import.')

POS_RE = re.compile(r"line: ([0-9]+) column: ([0-9]+)")
VIA_RE = re.compile(r"VIA: (?:file: \S+ )?line: ([0-9]+) column: ([0-9]+)")


def expr_tokens(e):
    if e[0] == "raw":
        return list(e[1])
    pr = gen.Printer()
    pr.expr(e, True)
    return [t for t in pr.toks if not isinstance(t, tuple)]


OKS = [("int", 1), ("int", 42), ("str", "ok"), ("bin", "+", ("int", 1), ("int", 2)), ("list", [("int", 1), ("int", 2)]),
       ("tuple", [("q", ("int", 1))]), ("bool", True)]


def semantic_faults(r):
    return [
        ("unknown-name", ("sym", "nope")),
        ("type-mismatch", ("bin", "+", ("int", 1), ("str", "a"))),
        ("type-mismatch", ("bin", "<", ("str", "a"), ("int", 1))),
        ("type-mismatch", ("not", ("int", 1))),
        ("missing-field", ("sel", ("tuple", [("a", ("int", 1))]), ("f", "zz"))),
        ("index-out-of-range", ("sel", ("list", [("int", 1)]), ("i", 5))),
        ("unhandled-select", ("select", ("str", "zz"), None, [("a", ("int", 1))])),
        ("failed-cast", ("cast", "int", ("str", "x1"))),
        ("fail", ("fail", ("str", "boom"))),
        ("bad-copy", ("copy", ("sym", "seven"), [("a", ("int", 1))])),
        ("not-a-function", ("call", ("sym", "seven"), [("int", 1)])),
        ("wrong-arity", ("call", ("sym", "idf"), [("int", 1), ("int", 2)])),
        # the same faults with operands that are names bound in earlier statements: the diagnostic must
        # point at the use, not at the definition of the operand
        ("type-mismatch", ("bin", "+", ("sym", "seven"), ("sym", "word"))),
        ("type-mismatch", ("bin", "*", ("sym", "seven"), ("sym", "word"))),
        ("type-mismatch", ("bin", "+", ("sym", "word"), ("sym", "seven"))),
        ("type-mismatch", ("bin", "<", ("sym", "word"), ("sym", "seven"))),
        ("type-mismatch", ("bin", "&&", ("sym", "yes"), ("sym", "seven"))),
        ("type-mismatch", ("not", ("sym", "seven"))),
        ("missing-field", ("sel", ("sym", "rec"), ("f", "zz"))),
        ("index-out-of-range", ("sel", ("sym", "lst"), ("i", 5))),
        ("unhandled-select", ("select", ("sym", "word"), None, [("a", ("int", 1))])),
        ("failed-cast", ("cast", "int", ("sym", "word"))),
        ("bad-copy", ("copy", ("sym", "rec"), [("a", ("sym", "word"))])),
        # ... and with operands that are results of calling a function defined in an earlier statement
        ("failed-cast", ("cast", "int", ("call", ("sym", "idf"), [("str", "x1")]))),
        ("type-mismatch", ("bin", "+", ("int", 1), ("call", ("sym", "idf"), [("str", "a")]))),
        ("type-mismatch", ("bin", "&&", ("bool", True), ("call", ("sym", "idf"), [("int", 1)]))),
        ("type-mismatch", ("bin", "in", ("int", 1), ("call", ("sym", "idf"), [("int", 2)]))),
        ("bad-copy", ("copy", ("sym", "rec"), [("a", ("call", ("sym", "idf"), [("str", "w")]))])),
        ("missing-field", ("sel", ("call", ("sym", "idf"), [("sym", "rec")]), ("f", "zz"))),
        ("unhandled-select", ("select", ("call", ("sym", "idf"), [("str", "zz")]), None, [("a", ("int", 1))])),
        # ... with operands selected from a tuple or list that an earlier statement built
        ("failed-cast:selected-operand", ("cast", "int", ("sel", ("sym", "rec2"), ("f", "s")))),
        ("failed-cast:selected-operand", ("cast", "int", ("sel", ("sym", "lst2"), ("i", 0)))),
        ("type-mismatch:selected-operand", ("bin", "+", ("int", 1), ("sel", ("sym", "rec2"), ("f", "s")))),
        ("type-mismatch:selected-operand", ("bin", "+", ("int", 1), ("sel", ("sym", "lst2"), ("i", 0)))),
        ("type-mismatch:selected-operand", ("not", ("sel", ("sym", "rec2"), ("f", "n")))),
        ("type-mismatch:selected-operand", ("bin", "&&", ("bool", True), ("sel", ("sym", "lst2"), ("i", 1)))),
        ("bad-copy:selected-operand", ("copy", ("sym", "rec"), [("a", ("sel", ("sym", "rec2"), ("f", "s")))])),
        # ... with an operand that is the result of instantiating a module an earlier statement defined
        ("failed-cast:module-result-operand", ("cast", "int", ("copy", ("sym", "modw"), []))),
        ("type-mismatch:module-result-operand", ("bin", "+", ("int", 1), ("copy", ("sym", "modw"), []))),
        # a function whose body uses its parameter as an int, called with a value of another type that is not a literal
        ("call-argument-type:named-operand", ("call", ("sym", "addone"), [("sym", "word")])),
        ("call-argument-type:selected-operand", ("call", ("sym", "addone"), [("sel", ("sym", "rec2"), ("f", "s"))])),
        ("call-argument-type:call-result", ("call", ("sym", "addone"), [("call", ("sym", "idf"), [("str", "w")])])),
        ("call-argument-type:expression-of-names", ("call", ("sym", "addone"), [("bin", "+", ("sym", "word"), ("str", "b"))])),
        ("call-argument-type:literal", ("call", ("sym", "addone"), [("str", "w")])),
        # a module parameter overridden with a value of another type: a name bound earlier, a call result, a literal
        ("module-argument-type:named-operand", ("copy", ("sym", "modp"), [("v", ("sym", "word"))])),
        ("module-argument-type:call-result", ("copy", ("sym", "modp"), [("v", ("call", ("sym", "idf"), [("str", "w")]))])),
        ("module-argument-type:literal", ("copy", ("sym", "modp"), [("v", ("str", "w"))])),
        ("module-argument-type:selected-operand", ("copy", ("sym", "modp"), [("v", ("sel", ("sym", "rec2"), ("f", "s")))])),
        # a value that does not satisfy a constraint given by a NAME bound earlier (exemplar or named constraint)
        ("let-constraint-mismatch:named-exemplar", ("raw", ["seven", "=", "\"w\""])),
        ("let-constraint-mismatch:named-exemplar-and-value", ("raw", ["seven", "=", "word"])),
        ("let-constraint-mismatch:named-constraint", ("raw", ["cint", "=", "\"w\""])),
        ("let-constraint-mismatch:tuple-exemplar", ("raw", ["rec", "=", "{", "a", "=", "\"w\"", "}"])),
        # a fault inside the expression of a format template
        ("unknown-name:in-format-template", ("fmt1", [("lit", "v="), ("e", ("sym", "nope"))], ("tuple", [("a", ("int", 1))]))),
        ("missing-field:in-format-template", ("fmt1", [("e", ("sel", ("sym", "item"), ("f", "zz")))], ("tuple", [("a", ("int", 1))]))),
        ("failed-cast:in-format-template", ("fmt1", [("e", ("cast", "int", ("sel", ("sym", "item"), ("f", "a"))))], ("tuple", [("a", ("str", "x1"))]))),
        # faults of built-in operations that read something outside the program
        ("bad-regex", ("bin", "~", ("str", "x"), ("str", "("))),
        ("missing-include", ("raw", ["include", "str", "\"no-such-file.txt\""])),
        ("missing-import", ("raw", ["import", "\"no-such-file.ucg\""])),
    ]


def syntax_faults(r):
    ok = lambda: expr_tokens(r.choice(OKS))
    return [
        ("syntax-missing-operand", ok() + ["+"]),
        ("syntax-doubled-operator", ok() + ["+", "*"] + ok()),
        ("syntax-doubled-operator", ok() + ["==", "=="] + ok()),
        ("syntax-unclosed-paren", ["("] + ok()),
        ("syntax-unclosed-list", ["["] + ok() + [","] + ok()),
        ("syntax-unclosed-tuple", ["{", "a", "="] + ok()),
        ("syntax-illegal-character", ok() + ["#"]),
        ("syntax-illegal-character", ["&"] + ok()),
        ("syntax-stray-closer", ok() + [")"]),
        ("syntax-missing-field-value", ["{", "a", "=", "}"]),
        ("syntax-bad-selector", ok()[:1] + [".", "+"]),
        # run-on: the closer AND the `;` are missing, so the parser only notices at the first token of the next statement
        # (or at the end of the input); the diagnostic still has to point into the statement that lacks them
        ("syntax-run-on-unclosed-list", ["["] + ok() + [","] + ok()),
        ("syntax-run-on-unclosed-tuple", ["{", "a", "="] + ok() + [",", "b", "="] + ok()),
        ("syntax-run-on-unclosed-paren", ["("] + ok() + ["+"] + ok()),
        ("syntax-run-on-unclosed-call", ["idf", "("] + ok()),
        ("syntax-run-on-unclosed-select", ["select", "(", "\"k\"", ",", "0", ")", "=>", "{", "k", "="] + ok()),
    ]


HOSTS = ["bare", "tuple-field", "list-element", "call-argument", "select-arm", "function-body", "nested-2",
         "function-body-via-map", "function-body-via-filter", "function-body-via-reduce", "function-body-via-tuple-map",
         "function-body-via-function", "module-body", "module-out-expression", "function-body-via-call-chain"]
# hosts whose fault only happens when a later statement calls (or instantiates) what the faulty statement defines
CALLED_HOSTS = {"function-body", "function-body-via-map", "function-body-via-filter", "function-body-via-reduce",
                "function-body-via-tuple-map", "function-body-via-function", "module-body", "module-out-expression", "function-body-via-call-chain"}
CHAIN_LENGTHS = [1, 2, 4, 7, 8, 9, 10, 13, 21, 40]


def host_tokens(host, name, ftoks, r):
    """-> (statement token lists: [faulty stmt tokens], [later calling stmt tokens or None])"""
    ok = expr_tokens(r.choice(OKS))
    if host == "bare":
        return ["let", name, "="] + ftoks + [";"], None
    if host == "tuple-field":
        return ["let", name, "=", "{", "a", "="] + ok + [",", "b", "="] + ftoks + [",", "c", "="] + ok + ["}", ";"], None
    if host == "list-element":
        return ["let", name, "=", "["] + ok + [","] + ftoks + [","] + ok + ["]", ";"], None
    if host == "call-argument":
        return ["let", name, "=", "idf", "("] + ftoks + [")", ";"], None
    if host == "select-arm":
        return ["let", name, "=", "select", "(", "\"k\"", ",", "0", ")", "=>", "{", "j", "="] + ok + [",", "k", "="] + ftoks + ["}", ";"], None
    if host == "nested-2":
        return ["let", name, "=", "{", "a", "=", "[", "idf", "("] + ftoks + [")", ",", "2", "]", "}", ";"], None
    if host == "function-body":
        return (["let", name, "=", "func", "(", "arg", ")", "=>"] + ftoks + [";"],
                ["let", name + "r", "=", name, "(", "1", ")", ";"])
    # the same function body reached through a built-in that runs the callback, or through another function
    if host == "function-body-via-map":
        return (["let", name, "=", "func", "(", "arg", ")", "=>"] + ftoks + [";"],
                ["let", name + "r", "=", "map", "(", name, ",", "[", "1", ",", "2", "]", ")", ";"])
    if host == "function-body-via-filter":
        return (["let", name, "=", "func", "(", "arg", ")", "=>"] + ftoks + [";"],
                ["let", name + "r", "=", "filter", "(", name, ",", "[", "1", "]", ")", ";"])
    if host == "function-body-via-reduce":
        return (["let", name, "=", "func", "(", "acc", ",", "arg", ")", "=>"] + ftoks + [";"],
                ["let", name + "r", "=", "reduce", "(", name, ",", "0", ",", "[", "1", ",", "2", "]", ")", ";"])
    if host == "function-body-via-tuple-map":
        return (["let", name, "=", "func", "(", "key", ",", "arg", ")", "=>"] + ftoks + [";"],
                ["let", name + "r", "=", "map", "(", name, ",", "{", "a", "=", "1", "}", ")", ";"])
    if host == "function-body-via-function":
        return (["let", name, "=", "func", "(", "arg", ")", "=>"] + ftoks + [";"],
                ["let", name + "r", "=", "idf", "(", "{", "a", "=", name, "(", "1", ")", "}", ")", ";"])
    if host == "function-body-via-call-chain":
        # the faulty function is reached through n helper functions, each defined in a statement of its own and each calling
        # the one before; the statement that starts it all is the last one, and it has to be listed however long the chain is
        n = r.choice(CHAIN_LENGTHS)
        middle = [["let", "%sc%d" % (name, i), "=", "func", "(", "x", ")", "=>", (name if i == 1 else "%sc%d" % (name, i - 1)), "(", "x", ")", ";"]
                  for i in range(1, n + 1)]
        return (["let", name, "=", "func", "(", "arg", ")", "=>"] + ftoks + [";"],
                ["let", name + "r", "=", "%sc%d" % (name, n), "(", "1", ")", ";"], middle)
    if host == "module-body":
        return (["let", name, "=", "module", "{", "arg", "=", "1", "}", "=>", "(", "res", ")", "{", "let", "res", "="] + ftoks + [";", "}", ";"],
                ["let", name + "r", "=", name, "{", "arg", "=", "2", "}", ";"])
    if host == "module-out-expression":
        return (["let", name, "=", "module", "{", "arg", "=", "1", "}", "=>", "("] + ftoks + [")", "{", "let", "res", "=", "1", ";", "}", ";"],
                ["let", name + "r", "=", name, "{", "arg", "=", "2", "}", ";"])
    raise ValueError(host)


def mark(stoks, idx):
    return [("<", ("stmt", idx))] + stoks + [(">", ("stmt", idx))]


def build_case(probe, r, nvalid, kind, ftoks, host, pos):
    """-> (token list with stmt marks, fault stmt index, call stmt index or None)"""
    prelude = [["let", "idf", "=", "func", "(", "a", ")", "=>", "a", ";"], ["let", "seven", "=", "7", ";"],
               ["let", "word", "=", "\"w\"", ";"], ["let", "yes", "=", "true", ";"],
               ["let", "rec", "=", "{", "a", "=", "1", "}", ";"], ["let", "lst", "=", "[", "1", "]", ";"],
               ["let", "rec2", "=", "{", "s", "=", "\"w\"", ",", "n", "=", "7", "}", ";"], ["let", "lst2", "=", "[", "\"w\"", ",", "7", "]", ";"],
               ["let", "modw", "=", "module", "{", "}", "=>", "(", "r", ")", "{", "let", "r", "=", "\"w\"", ";", "}", ";"],
               ["constraint", "cint", "=", "in", "0", "..", "10", ";"],
               ["let", "addone", "=", "func", "(", "x", ")", "=>", "x", "+", "1", ";"],
               ["let", "modp", "=", "module", "{", "v", "=", "1", "}", "=>", "(", "r", ")", "{", "let", "r", "=", "mod", ".", "v", ";", "}", ";"]]
    for attempt in range(8):
        stmts, _ = progs.gen_program(r, depth=2, nstmts=max(2, nvalid), p_bad=0.0, ascii_only=True)
        stmts = [s for s in stmts if s[0] == "let"]
        chk = probe.safe_call({"op": "eval", "text": gen.to_text(stmts), "strict": True, "reuse_max": 100})
        if chk.get("ok"):
            break
    else:
        stmts = [("let", "v1", ("int", 1)), ("let", "v2", ("str", "s"))]
    valid = []
    for s in stmts:
        if s[0] != "let":
            continue
        pr = gen.Printer()
        pr.stmt(s)
        valid.append([t for t in pr.toks if not isinstance(t, tuple)])
    valid = valid[:nvalid]
    middle = []
    if kind.startswith("let-constraint"):
        fstmt, cstmt = ["let", "flt", "::"] + ftoks + [";"], None
    else:
        ht = host_tokens(host, "flt", ftoks, r)
        fstmt, cstmt = ht[0], ht[1]
        middle = ht[2] if len(ht) > 2 else []
    if kind.startswith("syntax-run-on"):
        assert host == "bare" and fstmt[-1] == ";"
        fstmt = fstmt[:-1]
    pos = min(pos, len(valid))
    seq = prelude + valid[:pos] + [fstmt] + middle + valid[pos:]
    fidx = len(prelude) + pos
    cidx = None
    if cstmt is not None:
        # the call comes somewhere later
        at = r.randint(fidx + 1 + len(middle), len(seq))
        seq = seq[:at] + [cstmt] + seq[at:]
        cidx = at
    toks = []
    for i, st in enumerate(seq):
        toks += mark(st, i)
    return toks, fidx, cidx, len(seq)


def inside(span, line, col):
    (sl, sc), (el, ec) = span
    if line < sl or line > el:
        return False
    if line == sl and col < sc:
        return False
    if line == el and col > ec + 1:
        return False
    return True


def observe(probe, text, mode, drv):
    if mode == "eval":
        r = probe.safe_call({"op": "eval", "text": text, "strict": True, "reuse_max": 100}, timeout=20.0)
    else:
        drv["n"] += 1
        path = os.path.join(drv["dir"], "e%d.ucg" % drv["n"])
        with open(path, "w", encoding="utf-8", newline="") as f:
            f.write(text)
        r = probe.safe_call({"op": "build", "path": path, "strict": True, "reuse_max": 100}, timeout=20.0)
        try:
            os.remove(path)
        except OSError:
            pass
    return r


PRIMARY_RE = re.compile(r"(?:file: (\S+) )?line: ([0-9]+) column: ([0-9]+)")
MAIN_OF_IMPORT = "let pre17 = 1;\n\n\nlet lib17 = import \"%s\";\nlet post17 = 2;\n"


def judge_imported(probe, text, spans, fidx, kind, res, drv):
    """the same single-fault program as a LIBRARY that another file imports: the statement that causes the fault is in the
    library, so the primary position names the library file and lies inside the faulty statement there -- not at the import"""
    drv["n"] += 1
    lib = os.path.join(drv["dir"], "lib17_%d.ucg" % drv["n"])
    main = os.path.join(drv["dir"], "main17_%d.ucg" % drv["n"])
    with open(lib, "w", encoding="utf-8", newline="") as f:
        f.write(text)
    with open(main, "w", encoding="utf-8") as f:
        f.write(MAIN_OF_IMPORT % os.path.basename(lib))
    rr = probe.safe_call({"op": "build", "path": main, "strict": True, "reuse_max": 100}, timeout=20.0)
    for q in (lib, main):
        try:
            os.remove(q)
        except OSError:
            pass
    cls_ = "syntax" if kind.startswith("syntax") else "semantic"
    res.count("imported-library-fault:" + cls_)
    if "panic" in rr or "crash" in rr or "hang" in rr or "inconclusive" in rr:
        res.count("crash-left-to-C04")
        return
    w = {"text": text, "fault_stmt": fidx, "imported": True, "kind": kind}
    if rr.get("ok"):
        res.violation(["imported-library-fault", cls_, "not-reported"], w, {})
        return
    err = "\n".join(l for l in rr.get("err", "").split("\n") if not l.startswith("TRACE:"))
    m = PRIMARY_RE.search(err)
    if not m:
        res.violation(["imported-library-fault", cls_, "no-position"], w, {"err": err[:300]})
        return
    f, line, col = m.group(1), int(m.group(2)), int(m.group(3))
    if f is not None and os.path.basename(f).startswith("main17_"):
        res.violation(["imported-library-fault", cls_, "reported-at-the-import-in-the-importing-file"], w, {"err": err[:300]})
        return
    if not inside(spans[("stmt", fidx)][0], line, col):
        res.violation(["imported-library-fault", cls_, "outside-faulty-statement"], w, {"err": err[:300], "reported": [line, col], "span": spans[("stmt", fidx)][0]})
        return
    res.count("imported-library-fault-inside-faulty-statement:" + cls_)


def judge_msg(err, spans, fidx, cidx, kind, host, mode, res, text, detail_extra=None):
    """checks primary position and VIA; returns (line, col) or None"""
    # TRACE output carries positions of its own and is not part of the diagnostic
    # (it may span several lines); on the CLI the diagnostic starts at "Error building file"
    if mode == "cli" and "Error building file" in err:
        err = err[err.index("Error building file"):]
    err = "\n".join(l for l in err.split("\n") if not l.startswith("TRACE:"))
    m = POS_RE.search(err)
    label = kind + "@" + host
    if not m:
        res.violation(["no-position", mode, kind], {"text": text, "fault_stmt": fidx}, {"err": err[:300]})
        return None
    line, col = int(m.group(1)), int(m.group(2))
    span = spans[("stmt", fidx)][0]
    if not inside(span, line, col):
        # which statement does it point at instead?
        where = "outside-any-statement"
        for tag, sp in spans.items():
            if tag[0] == "stmt" and inside(sp[0], line, col):
                d = tag[1] - fidx
                where = "earlier-statement" if d < 0 else "later-statement"
                if cidx is not None and tag[1] == cidx:
                    where = "the-calling-statement"
        res.violation(["position-outside-faulty-statement", mode, kind, host, where], {"text": text, "fault_stmt": fidx},
                      {"err": err[:300], "reported": [line, col], "span": span})
        return None
    res.count("primary-inside:" + mode)
    if cidx is not None and "Type error:" in err:
        # found statically by the checker at the definition: nothing was called, so there is no caller to list
        res.count("static-type-error-no-call:" + mode)
    elif cidx is not None:
        vias = [(int(a), int(b)) for a, b in VIA_RE.findall(err)]
        cspan = spans[("stmt", cidx)][0]
        if not any(inside(cspan, l, c) for l, c in vias):
            res.violation(["no-via-inside-calling-statement", mode, kind], {"text": text, "fault_stmt": fidx, "call_stmt": cidx},
                          {"err": err[:300], "vias": vias, "call_span": cspan})
            return None
        res.count("via-inside-caller:" + mode)
    return line, col


def task(args):
    seed, idx, count = args
    r = core.rng_for(seed, "c17", idx)
    res = core.Result()
    probe = core.Probe()
    drv = {"dir": os.path.join(core.SCRATCH, "c17-%d-%d" % (idx, os.getpid())), "n": 0}
    os.makedirs(drv["dir"], exist_ok=True)
    try:
        for c in range(count):
            sem = semantic_faults(r)
            syn = syntax_faults(r)
            if r.random() < 0.55:
                kind, node = r.choice(sem)
                ftoks = expr_tokens(node)
                issyn = False
            else:
                kind, ftoks = r.choice(syn)
                issyn = True
            host = r.choice(HOSTS)
            if kind.startswith("syntax-run-on") or kind.startswith("let-constraint"):
                host = "bare"
            nvalid = r.randint(1, 10)
            pos = r.randint(0, nvalid)
            toks, fidx, cidx, nst = build_case(probe, r, nvalid, kind, ftoks, host, pos)
            if issyn or kind == "missing-import":
                cidx = None     # a syntax error (or an import that cannot be linked) is reported before anything is called
            nl = r.choice(["\n", "\n", "\r\n"])
            lay = gen.Layout(r, newline=nl, p_newline=0.35, p_comment=0.0, p_tight=0.5, stmt_own_line=True)
            text, tokpos, spans, _ = lay.render(toks)
            res.case(text, nontrivial=(fidx > 2 or host != "bare"))
            res.count("fault:" + kind)
            res.count("host:" + host)
            for mode in ("eval", "build"):
                rr = observe(probe, text, mode, drv)
                if "panic" in rr or "crash" in rr or "hang" in rr or "inconclusive" in rr:
                    res.count("crash-left-to-C04")
                    continue
                if rr.get("ok"):
                    res.violation(["fault-not-reported", mode, kind, host], {"text": text, "fault_stmt": fidx}, {})
                    continue
                err = rr.get("err", "")
                if kind.startswith("call-argument-type") and "Type error:" not in err:
                    # found at run time: the operation that fails is in the callee's body (another statement), the call is
                    # listed under VIA -- only the checker's static diagnosis puts the fault in the calling statement
                    res.count("call-argument-type-found-at-run-time (no verdict)")
                    continue
                p0 = judge_msg(err, spans, fidx, cidx, kind, host, mode, res, text)
                if p0 is None:
                    continue
                # metamorphic: k lines of unrelated statements before / after
                k = r.randint(1, 3)
                extra = "".join("let pad%d = %d;%s" % (j, j, nl) for j in range(k))
                r2 = observe(probe, extra + text, mode, drv)
                if not r2.get("ok") and "err" in r2:
                    m2 = POS_RE.search(r2["err"])
                    if m2 and (int(m2.group(1)), int(m2.group(2))) != (p0[0] + k, p0[1]):
                        res.violation(["position-does-not-shift-with-lines-before", mode, kind], {"text": text, "pad_lines": k},
                                      {"before": list(p0), "after": [int(m2.group(1)), int(m2.group(2))]})
                    else:
                        res.count("shift-before-ok")
                if not issyn or True:
                    r3 = observe(probe, text + extra.replace("pad", "tail"), mode, drv)
                    if not r3.get("ok") and "err" in r3:
                        m3 = POS_RE.search(r3["err"])
                        if m3 and (int(m3.group(1)), int(m3.group(2))) != p0:
                            res.violation(["position-moves-with-statements-after", mode, kind], {"text": text, "pad_lines": k},
                                          {"before": list(p0), "after": [int(m3.group(1)), int(m3.group(2))]})
                        else:
                            res.count("stable-with-after-ok")
            if c % 5 == 0 and not (kind.startswith("call-argument-type") or kind == "missing-import"):
                judge_imported(probe, text, spans, fidx, kind, res, drv)
            if c % 25 == 0:
                with core.TempProject("c17") as tp:
                    tp.write("f.ucg", text)
                    ev = core.run_cli(["build", "f.ucg"], tp.root)
                    if ev["exit"] == 1 and kind.startswith("call-argument-type") and "Type error:" not in ev["stderr"]:
                        res.count("call-argument-type-found-at-run-time (no verdict)")
                    elif ev["exit"] == 1:
                        judge_msg(ev["stderr"], spans, fidx, cidx, kind, host, "cli", res, text)
                    elif ev["exit"] == 0:
                        res.violation(["fault-not-reported", "cli", kind, host], {"text": text, "fault_stmt": fidx}, {})
            if c < 1 and idx < 3:
                res.sample({"text": text, "fault": kind, "host": host, "fault_stmt_span": spans[("stmt", fidx)][0]})
    finally:
        probe.stop()
        shutil.rmtree(drv["dir"], ignore_errors=True)
    return res


def run(tier, seed, t0):
    q = tier == "quick"
    n = 12000 if q else 200000
    sh = 32 if q else 128
    tasks = [(seed, i, n // sh) for i in range(sh)]
    res = core.run_parallel(task, tasks)
    return core.finish("C17", tier, seed, res, RULE, t0, replay_known=replay_known,
                       assumptions=["the primary position is the first `line: N column: M` in the diagnostic",
                                    "a statement's span runs from its first token to its `;` inclusive",
                                    "only faults whose earliest detection point is inside the faulty statement are injected"])


def check_witness(w):
    """re-judge a stored witness: text + fault_stmt (span is recomputed from the statement boundaries in the text)"""
    from .. import reftok
    res = core.Result()
    text = w["text"]
    fidx = w["fault_stmt"]
    # spans of statements = between `;` tokens at nesting depth 0 (reference tokenizer; falls back to None)
    try:
        toks = reftok.tokenize(text)
    except reftok.TokError as e:
        toks = None
    spans = {}
    if toks is not None:
        depth = 0
        start = None
        si = 0
        for t in toks:
            if t[0] == "END":
                break
            if start is None:
                start = (t[2], t[4])
            if t[0] == "PUNCT" and t[1] in "([{":
                depth += 1
            elif t[0] == "PUNCT" and t[1] in ")]}":
                depth = max(0, depth - 1)
            elif t[0] == "PUNCT" and t[1] == ";" and depth == 0:
                spans[("stmt", si)] = [(start, (t[2], t[4]))]
                si += 1
                start = None
    probe = core.Probe()
    drv = {"dir": os.path.join(core.SCRATCH, "c17-r-%d" % os.getpid()), "n": 0}
    os.makedirs(drv["dir"], exist_ok=True)
    try:
        if w.get("imported"):
            if ("stmt", fidx) in spans:
                judge_imported(probe, text, spans, fidx, w.get("kind", "syntax"), res, drv)
            return res
        for mode in ("eval", "build"):
            rr = observe(probe, text, mode, drv)
            if rr.get("ok"):
                res.violation(["fault-not-reported", mode], w, {})
            elif "err" in rr and ("stmt", fidx) in spans:
                judge_msg(rr["err"], spans, fidx, w.get("call_stmt"), "replay", "replay", mode, res, text)
    finally:
        probe.stop()
        shutil.rmtree(drv["dir"], ignore_errors=True)
    return res


def replay_known(entry):
    w = entry.get("witness", {})
    if "text" not in w or "fault_stmt" not in w:
        return None
    return bool(check_witness(w).violations)


def replay(path, tier, seed):
    d = json.load(open(path))
    res = check_witness(d["witness"])
    if res.violations:
        print("VIOLATION property=C17 replay=%s" % path)
        print(json.dumps(res.violations[0], indent=1)[:1500])
        return 1
    print("replay: no violation")
    return 0
