"""C11 - tokens carry exact text and location; layout does not matter (reference tokenizer oracle)."""
import itertools
import json
import re

from .. import core, gen, progs, reftok, hostile

RULE = ("(1) all pairs and (thorough: all, quick: sampled) triples of a 78-item vocabulary (every keyword, operator, "
        "punctuation, bareword shapes, digits, strings, booleans, NULL) written adjacent and with blank, tab, LF, CRLF "
        "and a comment between them: ucg's tokens (type, fragment, line, column, byte offset) vs the maximal-munch "
        "reference tokenizer vf/reftok.py; (2) random token sequences <= 40 under random layouts (LF/CRLF, comments); "
        "(3) string literals over arbitrary Unicode with every escape form: token fragment and evaluated value vs the "
        "decoded source text; (4) generated programs under random layouts: same token sequence and same parse tree as "
        "the canonical single-space layout. distinct = distinct source texts; non-trivial = >= 2 tokens.")
RULE += (" " + 'Pairs are also judged in 9 contexts (after a leading line, after non-ASCII comments and strings on the same and earlier lines, after a multi-line string, after tabs, before a comment that ends the text without a newline).')
RULE += (" " + 'Generated programs are also laid out with whitespace, line breaks and comments between the three tokens (digits, dot, digits) of every float literal; the parse must equal that of the compact text.')

KEYWORDS = ["let", "import", "include", "as", "func", "select", "map", "reduce", "filter", "module", "mod", "out",
            "constraint", "convert", "assert", "fail", "TRACE", "NULL", "in", "is", "not", "true", "false", "self", "env"]
WORDS = ["a", "b1", "a-b", "a_b", "Z", "x-", "nulL"]
DIGITS = ["0", "12", "007"]
STRINGS = ['""', '"a b"', '"\\""', '"é"', '"\\n\\\\"', '"//x"']
INVALID = ["&", "!", "_x", "#", "é", "\"open"]
VOCAB = KEYWORDS + reftok.PUNCT + WORDS + DIGITS + STRINGS + INVALID
SEPS = ["", " ", "\t", "\n", "\r\n", " // c\n"]


# a pair of tokens after a leading line, after non-ASCII comments and strings on the same and on earlier lines, after a
# multi-line string, after tabs, before a comment that ends the text without a newline: positions in every such context
CONTEXTS = ["x\n{a} {b}\n;", "// \u00e9 \u4e2d \U0001F600\n{a} {b}", "{a} {b} // end", "\"\u00e9\u4e2d\" {a}\t{b}", "\"l1\nl2\r\nl3\" {a} {b}",
            "{a}\r\n\r\n{b}", "\t{a}\t\t{b} ", "x // \u00e9\r\n  {a} {b} // \U0001F600", "{a} {b}//"]


def compare(text, probe, res, what):
    """tokenize text with ucg and with the reference; record a violation on disagreement"""
    try:
        ref = reftok.tokenize(text)
        ref_err = None
    except reftok.TokError as e:
        ref, ref_err = None, e
    r = probe.safe_call({"op": "tokenize", "text": text})
    if "panic" in r or "crash" in r or "hang" in r:
        res.count("crash-left-to-C04")
        return None
    if "inconclusive" in r:
        res.inconclusive += 1
        return None
    if ref_err is not None:
        if r.get("ok"):
            res.violation(["accepts-what-reference-rejects", what], {"text": text},
                          {"reference_error": str(ref_err), "ucg_tokens": r["tokens"][:8]})
        else:
            res.count("both-reject")
        return None
    if not r.get("ok"):
        res.violation(["rejects-what-reference-accepts", what], {"text": text},
                      {"ucg_error": r.get("err", "")[:200], "reference_tokens": [list(t) for t in ref[:8]]})
        return None
    got = r["tokens"]
    if len(got) != len(ref):
        i = 0
        while i < min(len(got), len(ref)) and got[i][0] == ref[i][0] and got[i][1] == ref[i][1]:
            i += 1
        g = got[i] if i < len(got) else None
        e = ref[i] if i < len(ref) else None
        res.violation(["token-sequence", (e[0] if e else "none") + "/" + (g[0] if g else "none")], {"text": text},
                      {"index": i, "expected": list(e) if e else None, "observed": g})
        return None
    for i, (g, e) in enumerate(zip(got, ref)):
        typ, frag, line, col, off = g
        if typ != e[0]:
            res.violation(["token-type", e[0] + "/" + typ], {"text": text}, {"index": i, "expected": list(e), "observed": g})
            return None
        if frag != e[1]:
            res.violation(["token-fragment", e[0]], {"text": text}, {"index": i, "expected": list(e), "observed": g})
            return None
        if line != e[2]:
            res.violation(["token-line", e[0]], {"text": text}, {"index": i, "expected": list(e), "observed": g})
            return None
        if col != e[3] and col != e[4]:
            res.violation(["token-column", e[0]], {"text": text}, {"index": i, "expected": list(e), "observed": g})
            return None
        if off != e[5]:
            res.violation(["token-offset", e[0]], {"text": text}, {"index": i, "expected": list(e), "observed": g})
            return None
    res.count("agree")
    return got


def task_pairs(args):
    lo, hi = args
    res = core.Result()
    probe = core.Probe()
    for i in range(lo, hi):
        a = VOCAB[i]
        for b in VOCAB:
            for s in SEPS:
                text = a + s + b
                res.case(text)
                compare(text, probe, res, "pair")
                # the same pair after a leading line and before a trailing token: positions on later lines
            for ctx in CONTEXTS:
                text = ctx.replace("{a}", a).replace("{b}", b)
                res.case(text)
                compare(text, probe, res, "pair-in-context")
    res.count("pairs_judged", (hi - lo) * len(VOCAB))
    if lo == 0:
        res.sample({"text": VOCAB[3] + SEPS[5] + VOCAB[40], "kind": "pair"})
    probe.stop()
    return res


def task_triples(args):
    mode, a_idx, seed, count = args
    res = core.Result()
    probe = core.Probe()
    if mode == "all":
        a = VOCAB[a_idx]
        for b in VOCAB:
            for c in VOCAB:
                for s in SEPS:
                    text = a + s + b + s + c
                    res.case(text)
                    compare(text, probe, res, "triple")
        res.count("triples_judged", len(VOCAB) ** 2)
    else:
        r = core.rng_for(seed, "c11tri", a_idx)
        for _ in range(count):
            a, b, c = r.choice(VOCAB), r.choice(VOCAB), r.choice(VOCAB)
            text = a + r.choice(SEPS) + b + r.choice(SEPS) + c
            res.case(text)
            compare(text, probe, res, "triple")
        res.count("triples_sampled", count)
    probe.stop()
    return res


RAW_POOL = ["a", "b", " ", "@", "{", "}", "/", "//", "é", "ß", "中", "\U0001F600", " ", "\x7f", "\n", "\r\n", "\t", "'", "%", "$",
            "́", "﻿", "NULL", ";"]
ESC_POOL = ["\\n", "\\r", "\\t", "\\\\", "\\\"", "\\@", "\\a", "\\0", "\\é", "\\ ", "\\/", "\\x41", "\\u00e9", "\\'", "\\{"]


def task_strings(args):
    seed, idx, count = args
    r = core.rng_for(seed, "c11str", idx)
    res = core.Result()
    probe = core.Probe()
    for c in range(count):
        parts = []
        for _ in range(r.randint(0, 12)):
            x = r.random()
            if x < 0.45:
                parts.append(r.choice(RAW_POOL))
            elif x < 0.8:
                parts.append(r.choice(ESC_POOL))
            else:
                s = hostile.rand_unicode(r, r.randint(1, 3)).replace('"', "").replace("\\", "").replace("\x00", "")
                parts.append(s)
        lit = '"' + "".join(parts) + '"'
        dec = reftok.decode_string(lit, 0)
        if dec is None or dec[1] != len(lit):
            continue
        expected = dec[0]
        pre = r.choice(["", " ", "\n", "// c\n", "x = ", "\r\n\t"])
        text = pre + lit + r.choice(["", ";", " ;", "\n"])
        res.case(text, nontrivial=len(parts) >= 1)
        compare(text, probe, res, "string-literal")
        # end to end: the evaluated value
        prog = "let s = " + lit + ";"
        e = probe.safe_call({"op": "eval", "text": prog, "reuse_max": 500})
        if e.get("ok"):
            got = dict((k, v) for k, v in e["val"]["T"]).get("s")
            if got != expected:
                res.violation(["string-value"], {"text": prog}, {"expected": expected, "observed": got})
            else:
                res.count("string-values-agree")
        elif "panic" in e or "crash" in e or "hang" in e:
            res.count("crash-left-to-C04")
        else:
            res.violation(["string-literal-rejected"], {"text": prog}, {"err": e.get("err", "")[:200]})
        if c < 1 and idx < 3:
            res.sample({"text": text, "expected_value": expected})
    probe.stop()
    return res


def strip_pos(j):
    return j


def task_layout(args):
    seed, idx, count = args
    r = core.rng_for(seed, "c11lay", idx)
    res = core.Result()
    probe = core.Probe()
    for c in range(count):
        if r.random() < 0.5:
            stmts, _ = progs.gen_program(r, depth=3, nstmts=5, p_bad=0.0)
            pr = gen.Printer(rng=r, extra_parens=0.05, quote_fields=0.2, trailing_commas=0.3)
            pr.program(stmts)
            toks = pr.toks
            is_prog = True
        else:
            n = r.randint(2, 40)
            toks = []
            for _ in range(n):
                t = r.choice(VOCAB)
                toks.append(t)
            is_prog = False
        canon = " ".join(t for t in toks if not isinstance(t, tuple))
        try:
            ref_c = [(t[0], t[1]) for t in reftok.tokenize(canon)]
        except reftok.TokError:
            continue
        base = compare(canon, probe, res, "canonical")
        res.case(canon)
        pbase = probe.safe_call({"op": "parse", "text": canon}) if is_prog else None
        for v in range(3):
            if is_prog:
                text, tokpos, spans, comments = gen.layout_text(r, toks, newline=r.choice(["\n", "\r\n"]),
                                                                p_tight=r.choice([0.0, 0.5, 1.0]))
            else:
                text = "".join(t + r.choice(SEPS[1:] + ["  ", "\n\n", " //\n", "\t//c // d\r\n"]) for t in toks)
            try:
                ref_l = reftok.tokenize(text)
            except reftok.TokError:
                continue
            if [(t[0], t[1]) for t in ref_l] != ref_c:
                res.count("layout-changes-tokens-by-the-grammar")
                continue
            res.case(text)
            got = compare(text, probe, res, "layout")
            if got is not None and base is not None:
                if [(g[0], g[1]) for g in got] != [(g[0], g[1]) for g in base]:
                    res.violation(["layout-changes-token-sequence"], {"text": text, "canonical": canon}, {})
            # positions of the laid-out tokens must be where the layout engine put them
            if is_prog and got is not None:
                by_off = {g[4]: g for g in got}
                for (tt, line, col, off) in tokpos:
                    g = by_off.get(off)
                    if g is None or g[2] != line or (g[3] != col and not any(ord(ch) > 127 for ch in text)):
                        res.violation(["layout-position"], {"text": text}, {"token": tt, "expected": [line, col, off], "observed": g})
                        break
            if is_prog and pbase is not None and pbase.get("ok"):
                pl = probe.safe_call({"op": "parse", "text": text})
                if not pl.get("ok"):
                    if "panic" in pl or "crash" in pl or "hang" in pl:
                        res.count("crash-left-to-C04")
                    else:
                        res.violation(["layout-breaks-parse"], {"text": text, "canonical": canon}, {"err": pl.get("err", "")[:200]})
                elif pl["ast"] != pbase["ast"]:
                    res.violation(["layout-changes-parse-tree"], {"text": text, "canonical": canon}, {})
                else:
                    res.count("layout-parse-agree")
        # a float literal is three tokens (digits, dot, digits): whitespace and comments between THEM are layout too
        if is_prog and pbase is not None and pbase.get("ok"):
            plain = [t for t in toks if not isinstance(t, tuple)]
            fl = [i for i, t in enumerate(plain) if re.match(r"^[0-9]+\.[0-9]+$", t)]
            if fl:
                parts = []
                for i, t in enumerate(plain):
                    if i in fl:
                        a, b = t.split(".")
                        sep1, sep2 = r.choice([(" ", ""), ("", " "), (" ", " "), ("\n", ""), (" // c\n", ""), ("\t", "\t"), ("", "\r\n"), (" ", " // d\n")])
                        parts.append(a + sep1 + "." + sep2 + b)
                    else:
                        parts.append(t)
                text = " ".join(parts)
                res.case(text)
                pl = probe.safe_call({"op": "parse", "text": text})
                if "panic" in pl or "crash" in pl or "hang" in pl:
                    res.count("crash-left-to-C04")
                elif not pl.get("ok"):
                    res.violation(["layout-breaks-parse", "inside-float-literal"], {"text": text, "canonical": canon}, {"err": pl.get("err", "")[:200]})
                elif pl["ast"] != pbase["ast"]:
                    res.violation(["layout-changes-parse-tree", "inside-float-literal"], {"text": text, "canonical": canon}, {})
                else:
                    res.count("layout-inside-float-literal-agree")
        if c < 1 and idx < 2:
            res.sample({"canonical": canon[:200]})
    probe.stop()
    return res


def dispatch(task):
    kind, args = task
    return {"pairs": task_pairs, "triples": task_triples, "strings": task_strings, "layout": task_layout}[kind](args)


def run(tier, seed, t0):
    q = tier == "quick"
    n = len(VOCAB)
    tasks = []
    step = 3
    for lo in range(0, n, step):
        tasks.append(("pairs", (lo, min(n, lo + step))))
    if q:
        tasks += [("triples", ("sample", i, seed, 12000)) for i in range(32)]
    else:
        tasks += [("triples", ("all", i, seed, 0)) for i in range(n)]
    ns = 40000 if q else 400000
    tasks += [("strings", (seed, i, ns // 32)) for i in range(32)]
    nl = 6000 if q else 80000
    tasks += [("layout", (seed, i, nl // 32)) for i in range(32)]
    res = core.run_parallel(dispatch, tasks)
    if res.counters.get("pairs_judged", 0) != n * n:
        raise core.HarnessBroken("pair space incomplete")
    extra = {"vocabulary_size": n, "separators": SEPS, "pairs_exhaustive": True,
             "triples_exhaustive": (not q) and res.counters.get("triples_judged", 0) == n ** 3}
    return core.finish("C11", tier, seed, res, RULE, t0, extra=extra, exhaustive=not q, replay_known=replay_known,
                       assumptions=["the reference does not define the unit of `column`: a column is accepted if it is "
                                    "right in bytes or in code points (they coincide on ASCII); line and byte offset must be exact",
                                    "symbol = ASCII letter followed by letters, digits, `_`, `-` (expressions.md)"])


def check_text(text):
    res = core.Result()
    probe = core.Probe()
    try:
        compare(text, probe, res, "replay")
        if text.startswith("let s = "):
            e = probe.safe_call({"op": "eval", "text": text})
            lit = text[len("let s = "):].rstrip(";")
            dec = reftok.decode_string(lit, 0)
            if dec and e.get("ok"):
                got = dict((k, v) for k, v in e["val"]["T"]).get("s")
                if got != dec[0]:
                    res.violation(["string-value"], {"text": text}, {"expected": dec[0], "observed": got})
    finally:
        probe.stop()
    return res


def replay_known(entry):
    w = entry.get("witness", {})
    if "text" not in w:
        return None
    return bool(check_text(w["text"]).violations)


def replay(path, tier, seed):
    d = json.load(open(path))
    res = check_text(d["witness"]["text"])
    if res.violations:
        print("VIOLATION property=C11 replay=%s" % path)
        print(json.dumps(res.violations[0], indent=1)[:1500])
        return 1
    print("replay: no violation")
    return 0
