"""C04 - no input makes the compiler crash or hang (crash/hang attribution at the probe and CLI boundary)."""
import json
import os
import re
import shutil
import time

from .. import core, gen, hostile, progs

RULE = ("inputs: (a) token soup / arbitrary UTF-8 <= 4 KiB (bracket nesting <= 6 by construction), (b) token-level "
        "mutations (delete/duplicate/swap/replace, on ucg's own token boundaries) of every .ucg file in the repository "
        "and of every fuzz-corpus file, (c) a fixed catalogue of edge-operand programs (i64 extremes, zero divisors, "
        "ranges, templates vs argument counts, casts/selects/fails of every value kind, bad regexes, malformed "
        "statements), (d) token mutations of typed generated programs, (e) deep-but-allowed nesting (<= 64) of 16 "
        "construct kinds. Each input is driven through tokenize, parse, fmt, eval (strict / non-strict), build of a "
        "file (type checker + VM) and, when it evaluates, through every converter; a sample also through the real "
        "`ucg build` / `ucg fmt`. Violation = panic response, dead probe (signal), hang confirmed alone with 3x the "
        "budget, CLI exit status outside {0,1}, or exit 1 without a message. distinct = distinct input texts; "
        "non-trivial = got past the tokenizer.")
RULE += (" " + 'The nesting catalogue also holds the same nests with one of 11 non-expressions at the innermost position or cut off there (every level fails to parse).')
RULE += (" " + 'Nest kinds also: `a in {b = a in {...}}` with a bareword and with a string on the left, and nested `is`.')

STAGE_TIMEOUT = 10.0


def excluded_reason(text):
    """inputs the quantifier excludes: nesting > 64, module self-recursion, ranges > 10^6"""
    # token-level: the generator prints `mod . this`, so look for the words, not the spelling `.this`
    if re.search(r"\bthis\b", text) or re.search(r"\bpkg\b", text):
        return "module self-recursion"
    d = m = 0
    for ch in text:
        if ch in "({[":
            d += 1
            m = max(m, d)
        elif ch in ")}]":
            d = max(0, d - 1)
    if m > 64:
        return "nesting > 64"
    if ":" in text and re.search(r"[0-9]{7,}", text):
        return "possibly a range longer than 10^6"
    if "import" in text and re.search(r"import\s*\"[^\"]*\"", text) and "std/" not in text:
        return None
    return None


def panic_sig(resp):
    p = resp["panic"]
    f = os.path.basename(p.get("loc", "").split(":")[0])
    msg = re.sub(r"[0-9]+", "N", p.get("msg", ""))
    msg = re.sub(r"`[^`]*`", "`_`", msg)
    return ["panic", f, msg[:80]]


class Driver:
    def __init__(self, res, wid):
        self.res = res
        self.probe = core.Probe(name="w%s" % wid)
        self.dir = os.path.join(core.SCRATCH, "c04-%s-%d" % (wid, os.getpid()))
        os.makedirs(self.dir, exist_ok=True)
        self.n = 0
        self.converters = ["json", "yaml", "toml", "xml", "env", "flags", "exec", "yamlmulti"]

    def close(self):
        self.probe.stop()
        shutil.rmtree(self.dir, ignore_errors=True)

    def bad(self, stage, resp, text, label):
        """record a crash/hang/panic response; returns True if the stage is unusable"""
        if "panic" in resp:
            self.res.violation(panic_sig(resp), {"text": text, "stage": stage, "label": label}, {"resp": resp["panic"]})
            return True
        if "crash" in resp or "hang" in resp:
            ex = excluded_reason(text)
            if ex:
                self.res.count("excluded:" + ex)
                return True
            if "crash" in resp:
                self.res.violation(["crash", stage, resp["crash"]], {"text": text, "stage": stage, "label": label},
                                   {"stderr": resp.get("stderr", "")[-400:]})
            else:
                self.res.violation(["hang", stage], {"text": text, "stage": stage, "label": label},
                                   {"budget_s": resp["hang"]})
            return True
        if "inconclusive" in resp:
            self.res.inconclusive += 1
            return True
        return False

    def drive(self, text, label, cli=False, build=True):
        res = self.res
        self.n += 1
        if len(text.encode("utf-8", "replace")) > 16384:
            text = text[:4096]
        text = text.encode("utf-8", "replace").decode("utf-8")
        r = self.probe.safe_call({"op": "tokenize", "text": text}, STAGE_TIMEOUT)
        tok_ok = bool(r.get("ok"))
        res.case(text, nontrivial=tok_ok)
        res.count("label:" + label)
        if self.bad("tokenize", r, text, label):
            return
        res.count("tokenize:" + ("ok" if tok_ok else "err"))
        r = self.probe.safe_call({"op": "parse", "text": text}, STAGE_TIMEOUT)
        if self.bad("parse", r, text, label):
            return
        parse_ok = bool(r.get("ok"))
        res.count("parse:" + ("ok" if parse_ok else "err"))
        r = self.probe.safe_call({"op": "fmt", "text": text}, STAGE_TIMEOUT)
        if self.bad("fmt", r, text, label):
            return
        if not parse_ok and self.n % 4:
            # unparsable text reaches nothing further (eval/build start with the same parse);
            # every 4th is driven on anyway to exercise the error paths
            return
        r = self.probe.safe_call({"op": "eval", "text": text, "strict": True, "cwd": self.dir, "reuse_max": 100,
                                  "convert_all": True, "omit_val": True}, STAGE_TIMEOUT)
        if self.bad("eval", r, text, label):
            return
        res.count("eval:" + ("ok" if r.get("ok") else "err"))
        for c in r.get("conv", []):
            if "panic" in c:
                self.bad("convert:" + c["conv"], c, text, label)
            else:
                res.count("convert:" + ("ok" if c.get("ok") else "err"))
        if self.n % 3 == 0:
            r = self.probe.safe_call({"op": "eval", "text": text, "strict": False, "cwd": self.dir, "reuse_max": 100},
                                     STAGE_TIMEOUT)
            if self.bad("eval-nostrict", r, text, label):
                return
        if build and parse_ok:
            path = os.path.join(self.dir, "c%d.ucg" % self.n)
            with open(path, "w", encoding="utf-8", newline="") as f:
                f.write(text)
            r = self.probe.safe_call({"op": "build", "path": path, "strict": True, "validate": self.n % 2 == 0,
                                      "reuse_max": 100}, STAGE_TIMEOUT)
            self._cleanup_artifacts(path)
            if self.bad("build", r, text, label):
                return
            res.count("build:" + ("ok" if r.get("ok") else "err"))
        if cli:
            self.cli(text, label)

    def _cleanup_artifacts(self, path):
        base = os.path.splitext(path)[0]
        d = os.path.dirname(path)
        for f in os.listdir(d):
            p = os.path.join(d, f)
            if p.startswith(base + ".") or p == base:
                try:
                    os.remove(p)
                except OSError:
                    pass

    def cli(self, text, label):
        res = self.res
        with core.TempProject("c04cli") as tp:
            tp.write("f.ucg", text)
            for argv in (["build", "f.ucg"], ["fmt", "f.ucg"], ["test", "f.ucg"]):
                ev = core.run_cli(argv, tp.root, timeout=STAGE_TIMEOUT * 2)
                res.count("cli:" + argv[0])
                stage = "cli-" + argv[0]
                if ev.get("hang"):
                    ex = excluded_reason(text)
                    if ex:
                        res.count("excluded:" + ex)
                        continue
                    ev2 = core.run_cli(argv, tp.root, timeout=STAGE_TIMEOUT * 6)
                    if ev2.get("hang"):
                        res.violation(["hang", stage], {"text": text, "stage": stage, "label": label}, {"argv": argv})
                    continue
                if ev["signal"]:
                    if excluded_reason(text):
                        res.count("excluded:" + excluded_reason(text))
                        continue
                    res.violation(["crash", stage, ev["signal"]], {"text": text, "stage": stage, "label": label},
                                  {"stderr": ev["stderr"][-400:]})
                    continue
                if ev["exit"] not in (0, 1):
                    m = re.search(r"panicked at ([^:\n]+):[0-9]+:[0-9]+:\n([^\n]*)", ev["stderr"])
                    if m:
                        sig = ["panic", os.path.basename(m.group(1)), re.sub(r"`[^`]*`", "`_`", re.sub(r"[0-9]+", "N", m.group(2)))[:80]]
                    else:
                        sig = ["cli-exit", stage, str(ev["exit"])]
                    res.violation(sig, {"text": text, "stage": stage, "label": label}, {"exit": ev["exit"], "stderr": ev["stderr"][-400:]})
                    continue
                if ev["exit"] == 1 and not (ev["stderr"].strip() or ev["stdout"].strip()):
                    res.violation(["cli-silent-failure", stage], {"text": text, "stage": stage, "label": label}, {})


# ------------------------------------------------------------------------------------------
# tasks

def task(args):
    kind = args[0]
    res = core.Result()
    drv = Driver(res, "%s%s" % (kind[0], args[2] if len(args) > 2 else ""))
    try:
        if kind == "soup":
            _, seed, idx, count = args
            r = core.rng_for(seed, "c04soup", idx)
            for c in range(count):
                if r.random() < 0.75:
                    text = hostile.token_soup(r, maxlen=r.choice([10, 30, 80, 300, 1200]))
                    label = "soup"
                else:
                    text = hostile.rand_unicode(r, r.randint(1, r.choice([8, 60, 400, 1300])))
                    label = "unicode"
                if len(text.encode("utf-8")) > 4096:
                    text = text.encode("utf-8")[:4096].decode("utf-8", "ignore")
                drv.drive(text, label, cli=(c % 40 == 0))
                if c < 1 and idx < 2:
                    res.sample({"label": label, "text": text[:300]})
        elif kind == "edge":
            _, seed, idx, nshards = args
            progs_ = hostile.edge_programs()
            for i, (label, text) in enumerate(progs_):
                if i % nshards != idx:
                    continue
                drv.drive(text, "edge:" + label, cli=(i % 7 == 0))
                if i % 997 == 0:
                    res.sample({"label": label, "text": text})
            res.count("edge_catalogue_size", len(progs_) if idx == 0 else 0)
        elif kind == "nest":
            _, seed, idx, depths = args
            k = hostile.NEST_KINDS[idx]
            for d in depths:
                drv.drive(hostile.nested(k, d), "nest:%s:%d" % (k, d), cli=(d in (16, 64)))
            # the same nests with a non-expression at the innermost position or cut off there (every level fails to parse)
            for d in [x for x in depths if x in (8, 12, 16, 32, 64)] or [12]:
                for how, text in hostile.nested_broken(k, d):
                    drv.drive(text, "broken-nest:%s:%s:%d" % (k, how, d), cli=False)
                    res.count("broken-nests")
            res.sample({"label": "nest:" + k, "text": hostile.nested(k, 5)})
        elif kind == "corpus":
            _, seed, idx, nshards, per_file = args
            files = hostile.corpus_files()
            r = core.rng_for(seed, "c04corpus", idx)
            for fi, path in enumerate(files):
                if fi % nshards != idx:
                    continue
                try:
                    text = open(path, encoding="utf-8").read()
                except (OSError, UnicodeDecodeError):
                    try:
                        text = open(path, "rb").read().decode("utf-8", "replace")
                    except OSError:
                        continue
                res.count("corpus_files")
                drv.drive(text, "corpus-original", cli=False, build=False)
                pieces = hostile.split_tokens(drv.probe, text)
                if pieces is None:
                    res.count("corpus_untokenizable")
                    # still mutate on whitespace boundaries
                    pieces = re.findall(r"\S+\s*|\s+", text)
                n = per_file if per_file else len(pieces) * 2
                for m in range(n):
                    mt, mk = hostile.mutate(r, pieces)
                    drv.drive(mt, "corpus-mut:" + mk, cli=(m % 60 == 0), build=(len(mt) < 3000))
                if fi < 2:
                    res.sample({"label": "corpus-mut", "file": os.path.relpath(path, core.REPO), "tokens": len(pieces)})
        elif kind == "genmut":
            _, seed, idx, count = args
            r = core.rng_for(seed, "c04gen", idx)
            for c in range(count):
                stmts, _ = progs.gen_program(r, depth=4, nstmts=6)
                pr = gen.Printer()
                pr.program(stmts)
                toks = [t + " " for t in pr.toks if not isinstance(t, tuple)]
                drv.drive(gen.join_stmts(pr.toks), "gen-valid", cli=(c % 50 == 1))
                for m in range(4):
                    mt, mk = hostile.mutate(r, toks)
                    drv.drive(mt, "gen-mut:" + mk, cli=(c % 50 == 0 and m == 0))
                if c < 1 and idx < 2:
                    res.sample({"label": "gen-mut", "text": mt[:300]})
    finally:
        drv.close()
    return res


def run(tier, seed, t0):
    q = tier == "quick"
    tasks = []
    nsoup = 24000 if q else 600000
    sh = 32 if q else 128
    tasks += [("soup", seed, i, nsoup // sh) for i in range(sh)]
    esh = 16
    tasks += [("edge", seed, i, esh) for i in range(esh)]
    depths = [8, 16, 64] if q else [2, 4, 6, 8, 10, 12, 16, 24, 32, 48, 64]
    tasks += [("nest", seed, i, depths) for i in range(len(hostile.NEST_KINDS))]
    csh = 32 if q else 64
    tasks += [("corpus", seed, i, csh, 16 if q else 400) for i in range(csh)]
    ng = 4000 if q else 100000
    gsh = 16 if q else 64
    tasks += [("genmut", seed, i, ng // gsh) for i in range(gsh)]
    res = core.run_parallel(task, tasks)
    extra = None
    if not q:
        # sanitizer supplement: the real CLI under valgrind memcheck on a slice of the catalogue
        from .. import sanitizers
        cat = hostile.edge_programs()
        inputs = [t for i, (_, t) in enumerate(cat) if i % 30 == seed % 30] + [hostile.nested(k, 16) for k in hostile.NEST_KINDS]
        inputs = [t for t in inputs if not excluded_reason(t)]
        vg = sanitizers.valgrind_cli(inputs)
        for rep in vg["error_reports"]:
            res.violation(["memcheck", rep["kind"]], {"text": rep["text"], "stage": "cli-build-under-memcheck", "label": "valgrind"},
                          {"stderr": rep["stderr"]})
        if vg["status"] != "ok":
            res.inconclusive += 1
            res.notes.append("valgrind supplement inconclusive: " + vg["status"])
        res.count("memcheck_cli_runs", vg["runs"])
        extra = {"sanitizer_supplement": {"tool": "valgrind 3.19 memcheck on `ucg build`", "status": vg["status"], "runs": vg["runs"],
                                          "error_reports": len(vg["error_reports"])}}
    return core.finish("C04", tier, seed, res, RULE, t0, replay_known=replay_known, extra=extra,
                       assumptions=["'never fails to terminate' is monitored as bounded progress: %gs per stage, "
                                    "confirmed alone with 3x the budget" % STAGE_TIMEOUT,
                                    "probe built with overflow-checks and debug-assertions on (semantics of `cargo build`)"])


def replay_text(text, label="replay"):
    res = core.Result()
    drv = Driver(res, "r")
    try:
        drv.drive(text, label, cli=True)
    finally:
        drv.close()
    return res


def replay_known(entry):
    w = entry.get("witness", {})
    if "text" not in w:
        return None
    res = replay_text(w["text"])
    return any(v["signature"] == entry["signature"] for v in res.violations) if entry.get("status") == "known" \
        else bool(res.violations)


def replay(path, tier, seed):
    d = json.load(open(path))
    if d["witness"].get("stage") == "cli-build-under-memcheck":
        from .. import sanitizers
        res = core.Result()
        for rep in sanitizers.valgrind_cli([d["witness"]["text"]])["error_reports"]:
            res.violation(["memcheck", rep["kind"]], d["witness"], {"stderr": rep["stderr"]})
    else:
        res = replay_text(d["witness"]["text"])
    if res.violations:
        print("VIOLATION property=C04 replay=%s" % path)
        print(json.dumps(res.violations[0], indent=1)[:2000])
        return 1
    print("replay: no violation")
    return 0
