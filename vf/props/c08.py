"""C08 - shell-facing output (env / flags / exec converters) delivers every value as one unaltered word."""
import itertools
import json
import os
import subprocess

from .. import core

RULE = ("strings: exhaustive over the alphabet {' \" \\ $ ` space newline * a} up to length 4 (quick, 7,380 strings) / 6 (thorough, "
        "597,870 strings), plus random Unicode <= 40 chars and injection canaries; each string in six positions (env "
        "value, flag value, list-flag item, exec command, exec argument, exec env value), batched through the real "
        "converters and read back by /bin/sh (dash) and bash: `. ./out.env`, `eval \"set -- $(cat out.txt)\"`, and the "
        "exec script sourced by bash with `exec` shadowed by a function that dumps \"$@\" and the assigned variables, "
        "NUL-separated. The scratch directory contains files (so an unquoted * would glob) and a CANARY that no value "
        "may create. Structure: tuples mixing scalar / NULL / list / nested-tuple fields in every order up to 5 fields "
        "(all 4^5 kind sequences in thorough): every scalar field must arrive exactly once, in order, whatever is "
        "skipped before it. distinct = distinct (position, string) or kind sequence; non-trivial = contains a "
        "shell-significant character or a skipped field before a scalar.")
RULE += (" " + 'Also: two words of 4 KiB .. 70,000 characters per shard; commands starting with a dash - the function standing in for `exec` is read the way the builtin reads its words (leading dash words are ITS options up to `--`).')

ALPHA = ["'", '"', "\\", "$", "`", " ", "\n", "*", "a"]
CANARIES = ["$(touch CANARY)", "`touch CANARY`", "$HOME", "${HOME}", "~", "*", "?", "[a-z]*", "a;touch CANARY", "a&&touch CANARY",
            "a|touch CANARY", "a\ntouch CANARY", "'; touch CANARY; '", "\"; touch CANARY; \"", "$((1+1))", "!!", "#c", "a #c", "-n", "-e x",
            "--", "", " ", "\t", "a\tb", "\\n", "\\", "\\'", "'\\''", "$'x'", "$\"x\"", "a=b", "é ü", "\U0001F600", "\x01", "\x7f", "%s", "\r",
            "a\r\nb", ">out", "<in", "2>&1", "{a,b}", "$IFS", "a  b", "\n", "\n\n", "x\n"]
SHELLS = [("dash", "/bin/sh"), ("bash", "/bin/bash")]
UNSET = "__UNSET__"


def strings_exhaustive(maxlen):
    for n in range(1, maxlen + 1):
        for t in itertools.product(ALPHA, repeat=n):
            yield "".join(t)


def rand_unicode(r):
    n = r.randint(1, 40)
    out = []
    for _ in range(n):
        x = r.random()
        if x < 0.5:
            out.append(r.choice(ALPHA + list("bcxyz;|&()<>#!~%=?[]{}")))
        elif x < 0.8:
            out.append(chr(r.randint(0x20, 0x7e)))
        elif x < 0.95:
            out.append(chr(r.randint(0xa0, 0x2fff)))
        else:
            out.append(chr(r.randint(0x10000, 0x1f9ff)))
    return "".join(out)


class Box:
    """scratch directory with bait files; runs shell snippets and checks the canary"""

    def __init__(self, tag):
        self.tp = core.TempProject("c08-" + tag)
        for f in ("bait1.txt", "bait2.txt", "a", "CANARY.not"):
            self.tp.write(f, "x")

    def close(self):
        self.tp.cleanup()

    def run(self, shell, script, timeout=60):
        env = {"PATH": "/usr/bin:/bin", "HOME": "/CANARY-HOME", "IFS": " \t\n"}
        p = subprocess.run([shell, "-c", script], cwd=self.tp.root, env=env, stdout=subprocess.PIPE, stderr=subprocess.PIPE, timeout=timeout)
        canary = os.path.exists(self.tp.path("CANARY"))
        if canary:
            os.remove(self.tp.path("CANARY"))
        extra = sorted(set(os.listdir(self.tp.root)) - {"bait1.txt", "bait2.txt", "a", "CANARY.not", "out.env", "out.txt", "argv.out", "env.out"}
                       - set(f for f in os.listdir(self.tp.root) if f.startswith("s") and f.endswith(".sh")))
        return p, canary, extra


def convert(probe, fmt, v):
    rr = probe.safe_call({"op": "convert", "format": fmt, "value": v}, timeout=30.0)
    if "panic" in rr or "crash" in rr or "hang" in rr or "inconclusive" in rr:
        return None, "crash"
    if not rr.get("ok"):
        return None, rr.get("err", "")
    return core.b64d(rr["b64"]), None


def sig_chars(s):
    cls = []
    for ch, name in (("'", "squote"), ('"', "dquote"), ("\\", "backslash"), ("$", "dollar"), ("`", "backquote"), ("\n", "newline"),
                     ("*", "glob"), (" ", "blank"), ("\r", "cr"), ("\t", "tab")):
        if ch in s:
            cls.append(name)
    return "+".join(cls[:3]) or "plain"


def split0(b):
    parts = b.split(b"\0")
    if parts and parts[-1] == b"":
        parts = parts[:-1]
    return [p.decode("utf-8", "surrogateescape") for p in parts]


def check_env_batch(probe, box, strs, res, position="env-value"):
    names = ["V%d" % i for i in range(len(strs))]
    v = {"T": [[n, s] for n, s in zip(names, strs)]}
    out, err = convert(probe, "env", v)
    if out is None:
        if err == "crash":
            res.count("crash-left-to-C04")
        else:
            res.violation(["converter-error", "env"], {"position": position, "strings": strs[:5]}, {"err": err[:200]})
        return
    box.tp.write("out.env", out)
    dump = " ".join('"${%s-%s}"' % (n, UNSET) for n in names)
    for sname, sh in SHELLS:
        p, canary, extra = box.run(sh, ". ./out.env; printf '%s\\0' " + dump)
        words = split0(p.stdout)
        judge_words(res, position, sname, strs, words, canary, extra, p, out)


def judge_words(res, position, sname, expected, words, canary, extra, p, out):
    if canary or extra:
        res.violation(["side-effect", position, sname], {"position": position, "strings": [s for s in expected if "CANARY" in s][:5] or expected[:3]},
                      {"canary": canary, "new_files": extra[:5]})
    if len(words) != len(expected):
        # find the first string that breaks things by bisection is expensive: report the batch head
        res.violation(["word-count", position, sname], {"position": position, "strings": expected[:8]},
                      {"expected_words": len(expected), "got_words": len(words), "stderr": p.stderr.decode("utf-8", "replace")[:300],
                       "output_head": out.decode("utf-8", "replace")[:300]})
        return
    bad = 0
    for e, w in zip(expected, words):
        if e != w:
            bad += 1
            if bad <= 3:
                res.violation(["word-altered", position, sname, sig_chars(e)], {"position": position, "string": e}, {"got": w[:100]})
    if not bad:
        res.count("words-ok:%s:%s" % (position, sname), len(expected))


def check_flags_batch(probe, box, strs, res, as_list=False):
    position = "list-flag-item" if as_list else "flag-value"
    if as_list:
        v = {"T": [["item", list(strs)]]}
        expected = []
        for s in strs:
            expected += ["--item", s]
    else:
        v = {"T": [["f%d" % i, s] for i, s in enumerate(strs)]}
        expected = []
        for i, s in enumerate(strs):
            expected += ["--f%d" % i, s]
    out, err = convert(probe, "flags", v)
    if out is None:
        if err == "crash":
            res.count("crash-left-to-C04")
        else:
            res.violation(["converter-error", "flags"], {"position": position, "strings": strs[:5]}, {"err": err[:200]})
        return
    box.tp.write("out.txt", out)
    for sname, sh in SHELLS:
        p, canary, extra = box.run(sh, "eval \"set -- $(cat out.txt)\"; for w in \"$@\"; do printf '%s\\0' \"$w\"; done")
        judge_words(res, position, sname, expected, split0(p.stdout), canary, extra, p, out)


BASH_EXEC_WRAPPER = r'''
exec() { printf '%s\0' "$@" >> argv.out; printf 'END\0' >> argv.out; for n in $NAMES; do printf '%s\0' "${!n-__UNSET__}"; done >> env.out; printf 'END\0' >> env.out; }
NAMES="E0 E1 E2"
: > argv.out; : > env.out
for f in $(ls s*.sh | sort -V); do ( source ./$f ) || printf 'FAILED\0END\0' >> argv.out; done
'''


def check_exec_batch(probe, box, strs, res, position):
    """position: exec-command | exec-arg | exec-env-value ; one script per string"""
    expected = []
    for i, s in enumerate(strs):
        if position == "exec-command":
            v = {"T": [["command", s], ["args", ["x"]]]}
            expected.append(([s, "x"], None))
        elif position == "exec-arg":
            v = {"T": [["command", "cmd"], ["args", [s, {"T": [["flag", s]]}, "tail"]]]}
            expected.append((["cmd", s, "--flag", s, "tail"], None))
        else:
            v = {"T": [["command", "cmd"], ["env", {"T": [["E0", s], ["E1", "mid"], ["E2", s]]}]]}
            expected.append((["cmd"], [s, "mid", s]))
        out, err = convert(probe, "exec", v)
        if out is None:
            if err == "crash":
                res.count("crash-left-to-C04")
            elif position == "exec-command" and s == "":
                res.count("empty-command-rejected")
            else:
                res.violation(["converter-error", "exec"], {"position": position, "string": s}, {"err": err[:200]})
            out = b"exec __CONVERT_FAILED__\n"
        box.tp.write("s%d.sh" % i, out)
    p, canary, extra = box.run("/bin/bash", BASH_EXEC_WRAPPER, timeout=120)
    argv_groups = groups(open(box.tp.path("argv.out"), "rb").read())
    env_groups = groups(open(box.tp.path("env.out"), "rb").read())
    for f in os.listdir(box.tp.root):
        if f.startswith("s") and f.endswith(".sh"):
            os.remove(box.tp.path(f))
    if canary or extra:
        res.violation(["side-effect", position, "bash"], {"position": position, "strings": [s for s in strs if "CANARY" in s][:5] or strs[:3]},
                      {"canary": canary, "new_files": extra[:5]})
    if len(argv_groups) != len(strs):
        res.violation(["script-count", position], {"position": position, "strings": strs[:5]},
                      {"expected": len(strs), "got": len(argv_groups), "stderr": p.stderr.decode("utf-8", "replace")[:300]})
        return
    for i, s in enumerate(strs):
        ea, ee = expected[i]
        if argv_groups[i] == ["__CONVERT_FAILED__"]:
            continue
        # the real `exec` builtin reads leading words that start with a dash as ITS options (up to a `--`), the function that
        # stands in for it here does not: model it
        got = argv_groups[i]
        if got[:1] == ["--"]:
            got = got[1:]
        elif got and got[0].startswith("-"):
            res.violation(["exec-command-read-as-option", position], {"position": position, "string": s}, {"argv": got[:6]})
            continue
        argv_groups[i] = got
        if argv_groups[i] != ea:
            res.violation(["argv-altered", position, sig_chars(s)], {"position": position, "string": s}, {"expected": ea, "got": argv_groups[i][:8]})
            continue
        if ee is not None and i < len(env_groups) and env_groups[i] != ee:
            res.violation(["env-assignment-altered", position, sig_chars(s)], {"position": position, "string": s}, {"expected": ee, "got": env_groups[i][:5]})
            continue
        res.count("words-ok:%s:bash" % position)


def groups(b):
    out = []
    cur = []
    for w in split0(b):
        if w == "END":
            out.append(cur)
            cur = []
        else:
            cur.append(w)
    return out


# ------------------------------------------------------------------------------------------ structure: field kinds in every order

KINDS = ["scalar", "null", "list", "tuple"]


def field_value(kind, i):
    if kind == "scalar":
        return ["s%d'q" % i, {"i": str(i + 7)}, True, "v %d" % i][i % 4]
    if kind == "null":
        return None
    if kind == "list":
        return ["l%d" % i, "m%d" % i]
    return {"T": [["inner", "t%d" % i]]}


def scalar_word(v):
    if isinstance(v, bool):
        return "true" if v else "false"
    if isinstance(v, dict):
        return v["i"]
    return v


def check_structure(probe, box, seq, res):
    names = ["N%d" % i for i in range(len(seq))]
    vals = [field_value(k, i) for i, k in enumerate(seq)]
    v = {"T": [[n, x] for n, x in zip(names, vals)]}
    tagseq = "-".join(seq)
    hard = any(k != "scalar" for k in seq[:-1]) and "scalar" in seq
    res.case(("structure", tagseq), nontrivial=hard)
    # env: skipped kinds contribute nothing; every scalar is set
    out, err = convert(probe, "env", v)
    if out is None:
        res.violation(["converter-error", "env", "structure"], {"kinds": seq}, {"err": (err or "")[:200]})
    else:
        box.tp.write("out.env", out)
        dump = " ".join('"${%s-%s}"' % (n, UNSET) for n in names)
        exp = [scalar_word(x) if k == "scalar" else UNSET for k, x in zip(seq, vals)]
        for sname, sh in SHELLS:
            p, canary, extra = box.run(sh, ". ./out.env; printf '%s\\0' " + dump)
            words = split0(p.stdout)
            if words != exp:
                first = next((i for i, (a, b) in enumerate(zip(exp, words + [None] * len(exp))) if a != b), 0)
                before = sorted(set(seq[:first]) - {"scalar"})
                res.violation(["env-field-lost-or-merged", "after:" + ("+".join(before) or "nothing"), "kind:" + seq[first]],
                              {"kinds": seq}, {"expected": exp, "got": words, "output": out.decode("utf-8", "replace")[:300],
                                               "stderr": p.stderr.decode("utf-8", "replace")[:200], "shell": sname})
                break
        else:
            res.count("structure-ok:env")
    # flags
    out, err = convert(probe, "flags", v)
    if out is None:
        res.violation(["converter-error", "flags", "structure"], {"kinds": seq}, {"err": (err or "")[:200]})
    else:
        exp = []
        for n, k, x in zip(names, seq, vals):
            if k == "scalar":
                exp += ["--" + n, scalar_word(x)]
            elif k == "null":
                exp += ["--" + n]
            elif k == "list":
                for it in x:
                    exp += ["--" + n, it]
        box.tp.write("out.txt", out)
        for sname, sh in SHELLS:
            p, canary, extra = box.run(sh, "eval \"set -- $(cat out.txt)\"; for w in \"$@\"; do printf '%s\\0' \"$w\"; done")
            words = split0(p.stdout)
            if words != exp:
                res.violation(["flags-field-lost-or-merged"], {"kinds": seq}, {"expected": exp, "got": words, "output": out.decode("utf-8", "replace")[:300], "shell": sname})
                break
        else:
            res.count("structure-ok:flags")


# ------------------------------------------------------------------------------------------ tasks

def task(args):
    kind = args[0]
    res = core.Result()
    probe = core.Probe()
    box = Box("%s-%s" % (kind, args[1] if len(args) > 1 else "x"))
    try:
        if kind == "strings":
            _, idx, nshards, maxlen, seed, nrand = args
            allstr = [s for i, s in enumerate(strings_exhaustive(maxlen)) if i % nshards == idx]
            r = core.rng_for(seed, "c08", idx)
            if idx == 0:
                allstr += CANARIES + ["-a", "-c", "--", "-", "-l x", "--version", "-a b", "-\u00e9"]
            allstr += [rand_unicode(r).replace("\x00", "") for _ in range(nrand)]
            # a few words far longer than any buffer, with the significant characters sprinkled in
            for n in r.sample([4095, 4096, 4097, 8192, 20000, 65536, 70000], 2):
                allstr.append("".join(r.choice(ALPHA) if i % 53 == 0 else r.choice("abcxyz") for i in range(n)))
            res.count("long-words", 2)
            B = 400
            for b0 in range(0, len(allstr), B):
                batch = allstr[b0:b0 + B]
                for s in batch:
                    for pos in ("env-value", "flag-value", "list-flag-item", "exec-command", "exec-arg", "exec-env-value"):
                        res.case((pos, s), nontrivial=(sig_chars(s) != "plain"))
                check_env_batch(probe, box, batch, res)
                check_flags_batch(probe, box, batch, res, as_list=False)
                check_flags_batch(probe, box, batch, res, as_list=True)
                for pos in ("exec-command", "exec-arg", "exec-env-value"):
                    for c0 in range(0, len(batch), 100):
                        check_exec_batch(probe, box, batch[c0:c0 + 100], res, pos)
            res.count("exhaustive_strings", sum(1 for i, _ in enumerate(strings_exhaustive(maxlen)) if i % nshards == idx))
            if idx == 0:
                res.sample({"strings": allstr[:6], "positions": 6})
        else:
            _, idx, nshards, maxfields = args
            n = 0
            for L in range(1, maxfields + 1):
                for seq in itertools.product(KINDS, repeat=L):
                    if n % nshards == idx:
                        check_structure(probe, box, list(seq), res)
                    n += 1
            res.count("kind_sequences", sum(1 for _ in range(0)))
            if idx == 0:
                res.sample({"kinds": ["scalar", "null", "list", "tuple", "scalar"]})
    finally:
        probe.stop()
        box.close()
    return res


def run(tier, seed, t0):
    q = tier == "quick"
    maxlen = 4 if q else 6
    nsh = 16 if q else 64
    tasks = [("strings", i, nsh, maxlen, seed, 40 if q else 400) for i in range(nsh)]
    maxf = 4 if q else 5
    tasks += [("structure", i, 8, maxf) for i in range(8)]
    res = core.run_parallel(task, tasks)
    total = sum(len(ALPHA) ** n for n in range(1, maxlen + 1))
    if res.counters.get("exhaustive_strings", 0) != total:
        raise core.HarnessBroken("string space incomplete: %s of %d" % (res.counters.get("exhaustive_strings"), total))
    extra = {"alphabet": ALPHA, "max_length": maxlen, "exhaustive_strings": total, "kind_sequences_up_to": maxf}
    return core.finish("C08", tier, seed, res, RULE, t0, extra=extra, exhaustive=True, replay_known=replay_known,
                       assumptions=["dash and bash are the POSIX shells that read the output", "the exec script is bash-only by its own shebang",
                                    "the exec converter does not export its assignments; that is not judged",
                                    "names are restricted to [A-Za-z_][A-Za-z0-9_]*"])


def check_witness(w):
    res = core.Result()
    probe = core.Probe()
    box = Box("replay")
    try:
        if "kinds" in w:
            check_structure(probe, box, w["kinds"], res)
        else:
            strs = w.get("strings") or [w["string"]]
            pos = w["position"]
            if pos == "env-value":
                check_env_batch(probe, box, strs, res)
            elif pos == "flag-value":
                check_flags_batch(probe, box, strs, res)
            elif pos == "list-flag-item":
                check_flags_batch(probe, box, strs, res, as_list=True)
            else:
                check_exec_batch(probe, box, strs, res, pos)
    finally:
        probe.stop()
        box.close()
    return res


def replay_known(entry):
    w = entry.get("witness", {})
    if not w:
        return None
    res = check_witness(w)
    if entry.get("status") == "known":
        return any(v["signature"] == entry["signature"] for v in res.violations)
    return bool(res.violations)


def replay(path, tier, seed):
    d = json.load(open(path))
    res = check_witness(d["witness"])
    if res.violations:
        print("VIOLATION property=C08 replay=%s" % path)
        print(json.dumps(res.violations[0], indent=1)[:1500])
        return 1
    print("replay: no violation")
    return 0
