"""C19 - standard-library list, tuple and string helpers compute what they document (Python reference definitions)."""
import json
import os
import shutil

from .. import core, gen, refint
from .c06 import vtext

RULE = ("random lists (length 0..12, mixed element types), tuples (0..8 fields incl. NULL values), ASCII and Unicode "
        "strings (0..20), separators of length 1..3, all in-range and boundary index pairs; each helper of std/lists, "
        "std/tuples, std/strings, std/functional and std/schema is called through `import \"std/...\"` in a generated "
        "file that is built (type checker + VM) and the bound result (tagged value) is compared with a short Python "
        "reference definition written from the docs; documented laws are checked as such (reverse . reverse = id and "
        "keeps the length, zip truncates to the shorter list, slice = inclusive index range, split_on then str_join "
        "with the same separator restores the string). Out-of-range arguments are judged only where the docs define "
        "the result. distinct = distinct (helper, arguments); non-trivial = non-empty input.")
RULE += (" " + 'schema.shaped pairs include nested tuples whose value has an extra field, lacks one, or has one of another type (`partial` applies to nested tuples too).')

# model values as in refint: ("i", n) ("s", str) ("b", bool) ("n",) ("f", x) ("l", [..]) ("t", [(k, v)..])


def L(xs):
    return ("l", list(xs))


def I(n):
    return ("i", n)


def S(s):
    return ("s", s)


def B(b):
    return ("b", b)


def base_type(v):
    return {"i": "int", "f": "float", "s": "str", "b": "bool", "n": "null", "l": "list", "t": "tuple"}[v[0]]


def render(v):
    if v[0] == "i":
        return str(v[1])
    if v[0] == "s":
        return v[1]
    if v[0] == "b":
        return "true" if v[1] else "false"
    return None


def shaped(val, shape, partial=True):
    """the documented rules; returns None where the docs leave it open"""
    if base_type(val) != base_type(shape):
        return False
    if val[0] == "t":
        vd, sd = dict(val[1]), dict(shape[1])
        for k, sv in shape[1]:
            if k not in vd:
                return False
            r = shaped(vd[k], sv, partial)
            if r is None:
                return None
            if not r:
                return False
        if not partial and any(k not in sd for k, _ in val[1]):
            return False
        return True
    if val[0] == "l":
        if not shape[1]:
            return True
        for x in val[1]:
            rs = [shaped(x, s, False) for s in shape[1]]
            if any(r is True for r in rs):
                continue
            if any(r is None for r in rs):
                return None
            return False
        return True
    return True


# ------------------------------------------------------------------------------------------ generators

WORDS = ["", "a", "b", "ab", "foo", "bar", "x y", "1", "é", "日本", "a,b", ",", "--", "a--b--c", "::", "tail,", ",lead", "a,,b", "ünï", "\U0001F600x"]


def rand_scalar(r):
    x = r.random()
    if x < 0.4:
        return I(r.randint(-5, 50))
    if x < 0.8:
        return S(r.choice(WORDS))
    return B(r.random() < 0.5)


def rand_list(r, maxlen=12, nested=True):
    n = r.choice([0, 0, 1, 2, 3, 4, 5, 8, 12])
    n = min(n, maxlen)
    out = []
    for _ in range(n):
        x = r.random()
        if nested and x < 0.1:
            out.append(L([rand_scalar(r) for _ in range(r.randint(0, 2))]))
        elif nested and x < 0.18:
            out.append(("t", [("k", rand_scalar(r))]))
        else:
            out.append(rand_scalar(r))
    return L(out)


def rand_tuple(r, nulls=True):
    n = r.randint(0, 8)
    names = r.sample(["a", "b", "c", "d", "name", "val", "x-1", "a b", "k1", "k2", "zz", "true"], n)
    out = []
    for nm in names:
        x = r.random()
        if nulls and x < 0.25:
            out.append((nm, ("n",)))
        elif x < 0.35:
            out.append((nm, L([rand_scalar(r)])))
        else:
            out.append((nm, rand_scalar(r)))
    return ("t", out)


def rand_str(r):
    if r.random() < 0.5:
        return r.choice(WORDS)
    n = r.randint(0, 20)
    return "".join(r.choice("abc ,-:;xé日1") for _ in range(n))


# ------------------------------------------------------------------------------------------ cases: (helper, prelude, expr, expected model value or ("FAIL",) / None)

def cases(r):
    out = []
    lst = rand_list(r)
    xs = lst[1]
    lt = vtext(lst)
    LI = 'let l = import "std/lists.ucg";\n'
    out.append(("lists.len", LI, "l.len(%s)" % lt, I(len(xs))))
    out.append(("lists.reverse", LI, "l.reverse(%s)" % lt, L(reversed(xs))))
    out.append(("lists.reverse-involution", LI, "l.reverse(l.reverse(%s))" % lt, lst))
    out.append(("lists.reverse-keeps-length", LI, "l.len(l.reverse(%s))" % lt, I(len(xs))))
    out.append(("lists.head", LI, "l.head(%s)" % lt, L(xs[:1])))
    out.append(("lists.tail", LI, "l.tail(%s)" % lt, L(xs[1:])))
    st, sp = r.randint(-2, 5), r.choice([1, 1, 2, 3])
    out.append(("lists.enumerate", LI, "l.enumerate{start = %s, step = %d, list = %s}" % (vtext(I(st)), sp, lt), L([L([I(st + i * sp), x]) for i, x in enumerate(xs)])))
    out.append(("lists.enumerate-defaults", LI, "l.enumerate{list = %s}" % lt, L([L([I(i), x]) for i, x in enumerate(xs)])))
    l2 = rand_list(r)
    m = min(len(xs), len(l2[1]))
    out.append(("lists.zip", LI, "l.zip{list1 = %s, list2 = %s}" % (lt, vtext(l2)), L([L([xs[i], l2[1][i]]) for i in range(m)])))
    if xs:
        a = r.randint(0, len(xs) - 1)
        b = r.randint(a, len(xs) - 1)
        out.append(("lists.slice", LI, "l.slice{start = %d, end = %d, list = %s}" % (a, b, lt), L(xs[a:b + 1])))
        out.append(("lists.slice-to-end", LI, "l.slice{start = %d, list = %s}" % (a, lt), L(xs[a:])))
        out.append(("lists.slice-whole", LI, "l.slice{start = 0, end = %d, list = %s}" % (len(xs) - 1, lt), lst))
        out.append(("lists.slice-single", LI, "l.slice{start = %d, end = %d, list = %s}" % (a, a, lt), L([xs[a]])))
    flat = L([x for x in xs if x[0] in "isb"])
    sep = r.choice([" ", ",", "--", ", ", ":::", ""])
    if all(render(x) is not None for x in flat[1]):
        out.append(("lists.str_join", LI, "l.str_join{sep = %s, list = %s}" % (gen.quote(sep), vtext(flat)), S(sep.join(render(x) for x in flat[1]))))
    # ops wrapper
    out.append(("lists.ops.len", LI, "l.ops{list = %s}.len" % lt, I(len(xs))))
    out.append(("lists.ops.reverse", LI, "l.ops{list = %s}.reverse().list" % lt, L(reversed(xs))))
    # tuples
    TI = 'let t = import "std/tuples.ucg";\n'
    tp = rand_tuple(r)
    tt = vtext(tp)
    out.append(("tuples.fields", TI, "t.fields{tpl = %s}" % tt, L([S(k) for k, _ in tp[1]])))
    out.append(("tuples.values", TI, "t.values{tpl = %s}" % tt, L([v for _, v in tp[1]])))
    out.append(("tuples.iter", TI, "t.iter{tpl = %s}" % tt, L([L([S(k), v]) for k, v in tp[1]])))
    out.append(("tuples.strip_nulls", TI, "t.strip_nulls{tpl = %s}" % tt, ("t", [(k, v) for k, v in tp[1] if v[0] != "n"])))
    names = [k for k, _ in tp[1]]
    ask = r.sample(names, min(len(names), r.randint(0, 3))) + (["nope"] if r.random() < 0.4 else [])
    out.append(("tuples.has_fields", TI, "t.has_fields{tpl = %s, fields = %s}" % (tt, vtext(L([S(a) for a in ask]))), B(all(a in names for a in ask))))
    out.append(("tuples.ops.fields", TI, "t.ops{tpl = %s}.fields()" % tt, L([S(k) for k, _ in tp[1]])))
    # strings
    SI = 'let s = import "std/strings.ucg";\n'
    s = rand_str(r)
    q = gen.quote(s)
    out.append(("strings.len", SI, "s.ops{str = %s}.len" % q, I(len(s))))
    out.append(("strings.chars", SI, "s.ops{str = %s}.chars" % q, L([S(c) for c in s])))
    sepc = r.choice([",", " ", "-", "--", ", ", ":::", "ab", "日"])
    out.append(("strings.split_on", SI, "s.ops{str = %s}.split_on{on = %s}" % (q, gen.quote(sepc)), L([S(p) for p in s.split(sepc)])))
    out.append(("strings.split_on-then-str_join", SI + LI, "l.str_join{sep = %s, list = s.ops{str = %s}.split_on{on = %s}}" % (gen.quote(sepc), q, gen.quote(sepc)), S(s)))
    idx = r.randint(0, len(s))
    out.append(("strings.split_at", SI, "s.ops{str = %s}.split_at(%d)" % (q, idx), ("t", [("left", S(s[:idx])), ("right", S(s[idx:]))])))
    if s:
        a = r.randint(0, len(s) - 1)
        b = r.randint(a, len(s) - 1)
        out.append(("strings.substr", SI, "s.ops{str = %s}.substr{start = %d, end = %d}.str" % (q, a, b), S(s[a:b + 1])))
        out.append(("strings.substr-to-end", SI, "s.ops{str = %s}.substr{start = %d}.str" % (q, a), S(s[a:])))
        out.append(("strings.substr-from-start", SI, "s.ops{str = %s}.substr{end = %d}.str" % (q, b), S(s[:b + 1])))
    digits = "".join(r.choice("0123456789") for _ in range(r.randint(1, 6)))
    rest = r.choice(["", "abc", " 12", "-3", "é"])
    out.append(("strings.parse_int", SI, "s.ops{str = %s}.parse_int().unwrap()" % gen.quote(digits + rest), I(int(digits))))
    out.append(("strings.wrap", SI, "s.wrap(%s).len" % q, I(len(s))))
    # functional
    FI = 'let f = import "std/functional.ucg";\n'
    v = rand_scalar(r)
    out.append(("functional.identity", FI, "f.identity(%s)" % vtext(v), v))
    out.append(("functional.maybe.unwrap", FI, "f.maybe{val = %s}.unwrap()" % vtext(v), v))
    out.append(("functional.maybe.is_null", FI, "[f.maybe{val = %s}.is_null(), f.maybe{val = NULL}.is_null()]" % vtext(v), L([B(False), B(True)])))
    out.append(("functional.maybe.do", FI, "f.maybe{val = %s}.do(func (x) => [x]).unwrap()" % vtext(v), L([v])))
    out.append(("functional.maybe.do-null", FI, "f.maybe{val = NULL}.do(func (x) => [x]).unwrap()", ("n",)))
    out.append(("functional.maybe.or", FI, "[f.maybe{val = NULL}.or(func () => %s).unwrap(), f.maybe{val = 1}.or(func () => 2).unwrap()]" % vtext(v), L([v, I(1)])))
    out.append(("functional.maybe.chain", FI, "f.maybe{val = NULL}.or(func () => \"foo\").do(func (x) => x + \"bar\").unwrap()", S("foobar")))
    out.append(("functional.maybe.expect", FI, "f.maybe{val = %s}.expect(\"msg\")" % vtext(v), v))
    out.append(("functional.maybe.expect-null-fails", FI, "f.maybe{val = NULL}.expect(\"msg\")", ("FAIL",)))
    # schema
    CI = 'let sc = import "std/schema.ucg";\n'
    anyv = r.choice([rand_scalar(r), rand_list(r, 3), rand_tuple(r, nulls=False), ("n",), ("f", 1.5)])
    out.append(("schema.base_type_of", CI, "sc.base_type_of(%s)" % vtext(anyv), S(base_type(anyv))))
    shape, val = rand_shape_pair(r)
    partial = r.random() < 0.5
    exp = shaped(val, shape, partial)
    if exp is not None:
        out.append(("schema.shaped", CI, "sc.shaped{val = %s, shape = %s, partial = %s}" % (vtext(val), vtext(shape), "true" if partial else "false"), B(exp)))
    types = [rand_shape_pair(r)[0] for _ in range(r.randint(0, 3))]
    rs = [shaped(val, t, False) for t in types]
    if all(x is not None for x in rs):
        out.append(("schema.any", CI, "sc.any{val = %s, types = %s}" % (vtext(val), vtext(L(types))), B(any(rs))))
    rs = [shaped(val, t, True) for t in types]
    if all(x is not None for x in rs):
        out.append(("schema.all", CI, "sc.all{val = %s, types = %s}" % (vtext(val), vtext(L(types))), B(all(rs))))
    return out


def rand_shape_pair(r):
    """(shape, value) related pairs"""
    x = r.random()
    if x < 0.3:
        s = rand_scalar(r)
        v = rand_scalar(r)
        return s, v
    if x < 0.75:
        names = r.sample(["a", "b", "c", "name", "port"], r.randint(1, 3))
        shape = ("t", [(n, rand_scalar(r)) for n in names])
        val_fields = []
        for i, (n, sv) in enumerate(list(shape[1])):
            if r.random() < 0.3:
                # a nested tuple: the value's may have an extra field, lack one, or have one of another type
                inner = r.sample(["x", "y", "z"], r.randint(1, 2))
                nshape = ("t", [(m, rand_scalar(r)) for m in inner])
                shape[1][i] = (n, nshape)
                nval = [(m, same_type(r, t)) for m, t in nshape[1]]
                z = r.random()
                if z < 0.35:
                    nval.append(("more", rand_scalar(r)))
                elif z < 0.5:
                    nval = nval[1:]
                elif z < 0.6:
                    nval[0] = (nval[0][0], L([I(1)]))
                val_fields.append((n, ("t", nval)))
                continue
            y = r.random()
            if y < 0.7:
                val_fields.append((n, same_type(r, sv)))
            elif y < 0.85:
                val_fields.append((n, rand_scalar(r)))
        if r.random() < 0.3:
            val_fields.append(("extra", rand_scalar(r)))
        r.shuffle(val_fields)
        return shape, ("t", val_fields)
    shape = L([rand_scalar(r) for _ in range(r.randint(0, 2))])
    val = L([rand_scalar(r) for _ in range(r.randint(0, 3))])
    return shape, val


def same_type(r, v):
    if v[0] == "i":
        return I(r.randint(0, 99))
    if v[0] == "s":
        return S(r.choice(WORDS))
    return B(r.random() < 0.5)


def task(args):
    seed, idx, count = args
    r = core.rng_for(seed, "c19", idx)
    res = core.Result()
    probe = core.Probe()
    d = os.path.join(core.SCRATCH, "c19-%d-%d" % (idx, os.getpid()))
    os.makedirs(d, exist_ok=True)
    n = 0
    try:
        for c in range(count):
            for helper, prelude, expr, exp in cases(r):
                n += 1
                text = prelude + "let r = %s;\n" % expr
                path = os.path.join(d, "s%d.ucg" % n)
                with open(path, "w", encoding="utf-8") as f:
                    f.write(text)
                rr = probe.safe_call({"op": "build", "path": path, "strict": True, "reuse_max": 40}, timeout=60.0)
                try:
                    os.remove(path)
                except OSError:
                    pass
                res.case((helper, expr), nontrivial=("[]" not in expr or "{}" not in expr))
                res.count("helper:" + helper)
                if "panic" in rr or "crash" in rr or "hang" in rr or "inconclusive" in rr:
                    res.count("crash-left-to-C04:" + helper)
                    continue
                if exp == ("FAIL",):
                    if rr.get("ok"):
                        res.violation(["helper-should-fail", helper], {"text": text}, {})
                    continue
                if not rr.get("ok"):
                    res.violation(["helper-fails", helper, cls(rr.get("err", ""))], {"text": text}, {"err": rr.get("err", "")[:300], "expected": refint.lower(exp)})
                    continue
                got = dict((k, v) for k, v in rr["val"]["T"]).get("r")
                if not refint.same(refint.lower(exp), refint.strip_r(got)):
                    res.violation(["helper-result-differs", helper], {"text": text}, {"expected": refint.lower(exp), "got": refint.strip_r(got)})
                else:
                    res.count("agree")
            if c < 1 and idx < 2:
                res.sample({"text": text})
    finally:
        probe.stop()
        shutil.rmtree(d, ignore_errors=True)
    return res


def cls(m):
    import re
    lines = [l for l in m.split("\n") if l.strip()]
    x = lines[1] if len(lines) > 1 else (lines[0] if lines else "")
    x = re.sub(r" at (file: \S+ )?line: [0-9]+ column: [0-9]+.*", "", x)
    return re.sub(r"[0-9]+", "N", x)[:50]


def run(tier, seed, t0):
    q = tier == "quick"
    n = 640 if q else 8000
    sh = 32 if q else 64
    tasks = [(seed, i, max(1, n // sh)) for i in range(sh)]
    res = core.run_parallel(task, tasks)
    return core.finish("C19", tier, seed, res, RULE, t0, replay_known=replay_known,
                       assumptions=["the reference definitions in vf/props/c19.py are my reading of docsite/.../stdlib/*.md and the doc comments in std/*.ucg",
                                    "schema.shaped: `partial` applies to nested tuples as well (the doc comment speaks of fields in tuples)"])


def check_text(text, expected):
    res = core.Result()
    probe = core.Probe()
    d = os.path.join(core.SCRATCH, "c19-r-%d" % os.getpid())
    os.makedirs(d, exist_ok=True)
    try:
        path = os.path.join(d, "r.ucg")
        open(path, "w", encoding="utf-8").write(text)
        rr = probe.safe_call({"op": "build", "path": path, "strict": True}, timeout=60.0)
        if expected == "FAIL":
            if rr.get("ok"):
                res.violation(["helper-should-fail"], {"text": text}, {})
        elif not rr.get("ok"):
            if "err" in rr:
                res.violation(["helper-fails"], {"text": text}, {"err": rr.get("err", "")[:200]})
        else:
            got = dict((k, v) for k, v in rr["val"]["T"]).get("r")
            if not refint.same(expected, refint.strip_r(got)):
                res.violation(["helper-result-differs"], {"text": text}, {"expected": expected, "got": got})
    finally:
        probe.stop()
        shutil.rmtree(d, ignore_errors=True)
    return res


def replay_known(entry):
    w = entry.get("witness", {})
    if "text" not in w or "expected" not in w:
        return None
    return bool(check_text(w["text"], w["expected"]).violations)


def replay(path, tier, seed):
    d = json.load(open(path))
    exp = d["witness"].get("expected", d["detail"].get("expected"))
    res = check_text(d["witness"]["text"], exp)
    if res.violations:
        print("VIOLATION property=C19 replay=%s" % path)
        print(json.dumps(res.violations[0], indent=1)[:1500])
        return 1
    print("replay: no violation")
    return 0
