"""C10 - bindings are immutable and lexically scoped."""
import json
import os
import re

from .. import core, gen, progs, refint
from . import c01

RULE = ("(1) prefix consistency: every generated program s1..sn is also run cut at every statement boundary; each "
        "binding made by a prefix must have the same value in the full run, and a failing prefix implies a failing "
        "program (purely differential, real code on both sides); (2) scoping programs built from name-collision "
        "templates (parameter / item / module-parameter names coinciding with bindings made before and after; "
        "functions referring to later bindings; module bodies referring to the file; leaks of parameters and of a "
        "format string's item), judged by the reference interpreter; (3) every word of the reserved list published in "
        "reference/_index.md (read at run time) as `let <w> = 1;`, `constraint <w> = 1;`, as a function parameter "
        "binding, and duplicate lets at top level and inside module bodies must fail. distinct = distinct program "
        "texts; non-trivial = >= 2 statements.")
RULE += (" " + 'Also: every pairing of the two binding statements (let, constraint) on one name - adjacent, apart, used in between, in module bodies - must fail, the same names in different scopes must build; duplicate parameter names must fail.')
RULE += (" " + 'Eight scoping templates in which the shadowed outer binding is read by the statement just before the function / callback / format is defined, or inside the same statement.')
RULE += (" " + '48 / 320 sessions piped into `ucg repl`: binding, closure over it, a rejected rebinding (let, constraint, other type, function), then reads of the name, the closure and a dependent binding.')
RULE += (" " + 'Round 8: the rebinding catalogue is also run with strict checking off (eval, build, and every 7th case through the CLI --no-strict build): immutability does not depend on that flag.')

INDEX_MD = os.path.join(core.REPO, "docsite/site/content/reference/_index.md")


def reserved_words():
    try:
        txt = open(INDEX_MD, encoding="utf-8").read()
    except OSError as e:
        raise core.HarnessBroken("cannot read %s: %s" % (INDEX_MD, e))
    i = txt.find("reserved")
    words = re.findall(r"^\* (\S+)\s*$", txt[i:], re.M)
    if len(words) < 15:
        raise core.HarnessBroken("reserved word list not found in the reference")
    return words


def run_text(probe, text, fresh=False, strict=True):
    r = probe.safe_call({"op": "eval", "text": text, "strict": strict, "fresh": fresh, "reuse_max": 100}, timeout=20.0)
    if "panic" in r or "crash" in r or "hang" in r:
        return "crash", None
    if "inconclusive" in r:
        return "inconclusive", None
    if r.get("ok"):
        return "ok", {k: refint.strip_r(v) for k, v in r["val"]["T"]}
    return "fail", r.get("err", "")


def task_prefix(args):
    seed, idx, count, depth, nst = args
    r = core.rng_for(seed, "c10p", idx)
    res = core.Result()
    probe = core.Probe()
    for c in range(count):
        stmts, _ = progs.gen_program(r, depth=depth, nstmts=nst)
        texts = []
        for k in range(1, len(stmts) + 1):
            texts.append(gen.to_text(stmts[:k]))
        full = texts[-1]
        res.case(full, nontrivial=len(stmts) >= 2)
        st_n, b_n = run_text(probe, full)
        if st_n in ("crash", "inconclusive"):
            res.count("full-run-" + st_n)
            continue
        res.count("full:" + st_n)
        for k in range(1, len(stmts)):
            st_k, b_k = run_text(probe, texts[k - 1])
            res.evaluations += 1
            if st_k in ("crash", "inconclusive"):
                res.count("prefix-run-" + st_k)
                continue
            if st_k == "fail":
                if st_n == "ok":
                    res.violation(["prefix-fails-but-program-succeeds"], {"text": full, "prefix_len": k},
                                  {"prefix_error": b_k[:200]})
                    break
                res.count("prefix-fails-and-program-fails")
                break      # longer prefixes fail as well
            # prefix ok
            if st_n == "ok":
                bad = [(n, v, b_n.get(n, "<missing>")) for n, v in b_k.items() if n not in b_n or not refint.same(v, b_n[n])]
                if bad:
                    n, v, w = bad[0]
                    res.violation(["binding-changes-value"], {"text": full, "prefix_len": k},
                                  {"binding": n, "in_prefix": v, "in_program": w})
                    break
                res.count("prefix-bindings-stable", len(b_k))
            else:
                res.count("prefix-ok-program-fails-later")
        if c < 1 and idx < 3:
            res.sample({"program": full[:400], "statements": len(stmts)})
    probe.stop()
    return res


# ------------------------------------------------------------------------------------------
# scoping templates (judged by the reference interpreter through c01.judge_program)

def I(n):
    return ("int", n)


def S(n):
    return ("sym", n)


def scoping_programs(r):
    """yield (label, stmts)"""
    a, b, p = "a", "b", "p"
    n1, n2 = r.randint(1, 9), r.randint(10, 19)
    out = []
    # parameter shadows an earlier binding; the outer binding is unchanged afterwards
    out.append(("param-shadows-earlier", [("let", a, I(n1)), ("let", "f", ("func", [a], ("bin", "+", S(a), I(1)))),
                                          ("let", "r", ("call", S("f"), [I(n2)])), ("let", "after", S(a))]))
    # ... and the outer binding was READ by the statement just before the function is defined (or inside the same statement)
    out.append(("param-shadows-binding-read-just-before", [("let", a, I(n1)), ("let", "c", ("bin", "*", S(a), I(2))), ("let", "f", ("func", [a], ("bin", "+", S(a), I(1)))),
                                                           ("let", "r", ("call", S("f"), [I(n2)])), ("let", "after", S(a))]))
    out.append(("param-shadows-binding-read-in-same-statement", [("let", a, I(n1)), ("let", "t", ("tuple", [("v", S(a)), ("f", ("func", [a], ("bin", "+", I(1), S(a))))])),
                                                                 ("let", "r", ("call", ("sel", S("t"), ("f", "f")), [I(n2)])), ("let", "after", S(a))]))
    out.append(("map-param-shadows-binding-read-just-before", [("let", a, I(n1)), ("let", "lim", S(a)), ("let", "r", ("map", ("func", [a], ("bin", "*", S(a), I(2))), ("list", [I(1), I(2), I(3)]))),
                                                               ("let", "after", S(a))]))
    out.append(("filter-param-shadows-binding-read-just-before", [("let", a, I(n1)), ("let", "lim", S(a)), ("let", "r", ("filter", ("func", [a], ("bin", ">", S(a), I(1))), ("list", [I(1), I(2), I(n2)]))),
                                                                  ("let", "after", S(a))]))
    out.append(("reduce-acc-shadows-binding-read-just-before", [("let", "acc", I(n2)), ("let", "start", S("acc")), ("let", "r", ("reduce", ("func", ["acc", p], ("bin", "+", S(p), S("acc"))), I(0), ("list", [I(1), I(2), I(3)]))),
                                                                ("let", "after", S("acc"))]))
    out.append(("item-read-just-before-format", [("let", "item", I(n1)), ("let", "y", S("item")), ("let", "s", ("fmt1", [("lit", "v="), ("e", S("item"))], I(n2))),
                                                 ("let", "after", S("item"))]))
    out.append(("nested-func-param-read-just-before", [("let", a, I(n1)), ("let", "f", ("func", [b], ("tuple", [("v", S(a)), ("g", ("func", [a], ("bin", "+", S(a), S(b))))]))),
                                                       ("let", "o", ("call", S("f"), [I(n2)])), ("let", "r", ("call", ("sel", S("o"), ("f", "g")), [I(3)])), ("let", "after", S(a))]))
    # parameter named like a LATER binding
    out.append(("param-named-like-later", [("let", "f", ("func", [a], ("bin", "*", S(a), I(2)))), ("let", a, I(n1)),
                                           ("let", "r", ("call", S("f"), [I(n2)])), ("let", "after", S(a))]))
    # closure captures definition-time scope: later binding is invisible -> call fails
    out.append(("func-refers-to-later-binding", [("let", "f", ("func", [], S("later"))), ("let", "later", I(n1)),
                                                 ("let", "r", ("call", S("f"), []))]))
    # a function cannot call itself
    out.append(("func-refers-to-itself", [("let", "f", ("func", [p], ("call", S("f"), [S(p)]))), ("let", "r", ("call", S("f"), [I(1)]))]))
    # closure sees earlier binding, result depends only on that
    out.append(("closure-sees-earlier", [("let", a, I(n1)), ("let", "f", ("func", [p], ("bin", "+", S(a), S(p)))),
                                         ("let", b, I(n2)), ("let", "r1", ("call", S("f"), [I(1)])),
                                         ("let", "r2", ("call", S("f"), [I(1)]))]))
    # parameter does not leak
    out.append(("param-does-not-leak", [("let", "f", ("func", [p], S(p))), ("let", "r", ("call", S("f"), [I(n1)])), ("let", "leak", S(p))]))
    # item does not leak; outer item is shadowed inside and restored after
    out.append(("item-shadowed-and-restored", [("let", "item", I(n1)), ("let", "s", ("fmt1", [("lit", "v="), ("e", S("item"))], I(n2))),
                                               ("let", "after", S("item"))]))
    out.append(("item-does-not-leak", [("let", "s", ("fmt1", [("e", S("item"))], I(n2))), ("let", "leak", S("item"))]))
    out.append(("item-bound-after", [("let", "s", ("fmt1", [("e", S("item"))], I(n2))), ("let", "item", I(n1)), ("let", "after", S("item"))]))
    # item inside a function body used in a format
    out.append(("item-in-func", [("let", "f", ("func", [p], ("fmt1", [("e", ("bin", "+", S("item"), S(p)))], I(n1)))),
                                 ("let", "r", ("call", S("f"), [I(n2)]))]))
    # module body sees only its parameters
    out.append(("module-refers-to-file", [("let", a, I(n1)), ("let", "m", ("module", [("x", I(1))], None, [("let", "y", S(a))])),
                                          ("let", "r", ("copy", S("m"), []))]))
    out.append(("module-default-sees-file", [("let", a, I(n1)), ("let", "m", ("module", [("x", S(a))], None,
                                                                                [("let", "y", ("sel", S("mod"), ("f", "x")))])),
                                             ("let", "r", ("copy", S("m"), []))]))
    out.append(("module-binding-named-like-outer", [("let", "y", I(n1)), ("let", "m", ("module", [("x", I(n2))], None,
                                                                                      [("let", "y", ("sel", S("mod"), ("f", "x")))])),
                                                    ("let", "r", ("copy", S("m"), [])), ("let", "after", S("y"))]))
    out.append(("module-bindings-do-not-leak", [("let", "m", ("module", [], None, [("let", "inner", I(n1))])),
                                                ("let", "r", ("copy", S("m"), [])), ("let", "leak", S("inner"))]))
    out.append(("module-func-closes-over-mod", [("let", "m", ("module", [("x", I(n1))], ("call", S("g"), [I(1)]),
                                                                 [("let", "g", ("func", [p], ("bin", "+", ("sel", S("mod"), ("f", "x")), S(p))))])),
                                                ("let", "r", ("copy", S("m"), [("x", I(n2))]))]))
    # duplicate let
    out.append(("duplicate-let", [("let", a, I(n1)), ("let", a, I(n2))]))
    out.append(("duplicate-let-same-value", [("let", a, I(n1)), ("let", a, I(n1))]))
    out.append(("duplicate-let-in-module", [("let", "m", ("module", [], None, [("let", "y", I(1)), ("let", "y", I(2))])),
                                            ("let", "r", ("copy", S("m"), []))]))
    # two parameters with different names, nested functions
    out.append(("nested-func-shadowing", [("let", a, I(n1)), ("let", "f", ("func", [a], ("func", [b], ("bin", "+", S(a), S(b))))),
                                          ("let", "g", ("call", S("f"), [I(n2)])), ("let", "r", ("call", S("g"), [I(1)])), ("let", "after", S(a))]))
    # map callback parameter named like a binding
    out.append(("map-param-shadows", [("let", a, I(n1)), ("let", "r", ("map", ("func", [a], ("bin", "+", S(a), I(1))), ("list", [I(1), I(2)]))),
                                      ("let", "after", S(a))]))
    # select arm names are not bindings
    out.append(("select-arm-not-a-binding", [("let", "r", ("select", ("str", "k"), I(0), [("k", I(n1))])), ("let", "leak", S("k"))]))
    # tuple fields are not bindings
    out.append(("tuple-field-not-a-binding", [("let", "t", ("tuple", [("fld", I(n1))])), ("let", "leak", S("fld"))]))
    # copy: self does not leak
    out.append(("self-does-not-leak", [("let", "t", ("tuple", [("x", I(n1))])), ("let", "u", ("copy", S("t"), [("x", ("bin", "+", ("sel", S("self"), ("f", "x")), I(1)))])),
                                       ("let", "leak", S("self"))]))
    return out


def task_repl(args):
    """the REPL is the one mode in which evaluation goes on after a rejected rebinding: the binding keeps its value there too.
    Sessions are piped into `ucg repl`; the value lines it prints are compared with the values the session must show."""
    seed, idx, count = args
    r = core.rng_for(seed, "c10repl", idx)
    res = core.Result()
    for c in range(count):
        a, b = r.randint(1, 9), r.randint(10, 19)
        name = r.choice(["x", "cfg", "v1"])
        rebinding = r.choice(["let %s = %d;" % (name, b), "constraint %s = %d;" % (name, b), "let %s = \"s\";" % name,
                              "let %s = func () => %d;" % (name, b)])
        pad = ["let pad%d = %d;" % (j, j) for j in range(r.randint(0, 2))]
        lines = ["let %s = %d;" % (name, a), "let f = func () => %s;" % name] + pad + [rebinding, "%s;" % name, "f();", "let y = %s + 100;" % name, "y;"]
        expect = [str(a), str(a), str(a + 100)]
        with core.TempProject("c10r") as tp:
            ev = core.run_cli(["repl"], tp.root, stdin=("\n".join(lines) + "\n").encode("utf-8"), timeout=30.0, merge=True)
        out = ev["stdout"]
        witness = {"session": lines}
        res.case(("repl", tuple(lines)), nontrivial=True)
        if ev.get("hang") or ev["signal"] or ev["exit"] not in (0, 1):
            res.count("crash-left-to-C04")
            continue
        if "already exists" not in out and "reserved" not in out:
            res.violation(["repl", "rebinding-not-rejected"], witness, {"output": out[-400:]})
            continue
        values = [l.strip() for l in out.split("\n") if re.match(r"^-?[0-9]+$", l.strip())]
        if values != expect:
            res.violation(["repl", "binding-changed-by-rejected-rebinding"], witness, {"values_printed": values, "expected": expect, "output": out[-400:]})
        else:
            res.count("repl-sessions-ok")
    return res


def task_scoping(args):
    seed, idx, count = args
    r = core.rng_for(seed, "c10s", idx)
    res = core.Result()
    probe = core.Probe()
    for c in range(count):
        for label, stmts in scoping_programs(r):
            # pad with unrelated statements before / between / after
            pads = []
            for j in range(r.randint(0, 2)):
                pads.append(("let", "pad%d" % j, r.choice([I(r.randint(0, 5)), ("str", "x"), ("list", [I(1)])])))
            pos = r.randint(0, len(stmts))
            full = stmts[:pos] + pads + stmts[pos:] if r.random() < 0.5 else pads + stmts
            v, d, text = c01.judge_program(probe, full, fresh=(c == 0))
            res.case(text)
            res.count("template:" + label)
            if v == "violated":
                res.violation(["scoping", label, d.get("kind")], {"text": text, "ast_repr": repr(full)}, d)
            elif v == "held":
                res.count("scoping-held")
            elif v in ("unspec", "crash"):
                res.count("scoping-" + v)
            else:
                res.inconclusive += 1
        if c == 0 and idx == 0:
            res.sample({"template": label, "text": text})
    probe.stop()
    return res


def task_reserved(args):
    res = core.Result()
    probe = core.Probe()
    words = reserved_words()
    for w in words:
        forms = [("let", "let %s = 1;" % w), ("constraint", "constraint %s = 1;" % w),
                 ("let-in-module", "let m = module {} => { let %s = 1; }; let r = m{};" % w),
                 ("func-param", "let f = func (%s) => 1; let r = f(2);" % w),
                 ("let-after-other", "let zz = 2; let %s = zz;" % w)]
        for kind, text in forms:
            st, b = run_text(probe, text, fresh=False)
            res.case(text)
            if st == "ok":
                res.violation(["reserved-word-accepted", kind, w], {"text": text}, {"bindings": b})
            elif st == "fail":
                res.count("reserved-word-rejected")
            else:
                res.count("reserved-" + st)
    res.count("reserved_words_in_reference", len(words))
    res.sample({"reserved_words": words})
    probe.stop()
    return res


def task_rebinding(args):
    """every pairing of the two binding statements (let, constraint) on one name, in every scope a statement list exists in,
    adjacent and with uses in between: must fail; the same names in different scopes: must build"""
    res = core.Result()
    probe = core.Probe()
    binders = {"let": "let %s = 1;", "let-str": "let %s = \"s\";", "constraint": "constraint %s = 1 | 2;", "constraint-range": "constraint %s = in 1..5;"}
    names = ["x", "limit", "a_b", "x-1", "Port"]
    cases = []
    for n in names:
        for k1, b1 in binders.items():
            for k2, b2 in binders.items():
                first, second = b1 % n, b2 % n
                lab = "%s-then-%s" % (k1, k2)
                cases.append(("fail", lab + ":adjacent", first + "\n" + second + "\n"))
                cases.append(("fail", lab + ":apart", first + "\nlet other = 2;\nlet t = {k = other};\n" + second + "\n"))
                if k1.startswith("let"):
                    cases.append(("fail", lab + ":used-between", first + "\nlet seen = %s;\n" % n + second + "\nlet after = seen;\n"))
                cases.append(("fail", lab + ":in-module", "let m = module {} => { %s %s };\nlet r = m{};\n" % (first, second)))
                cases.append(("fail", lab + ":in-module-apart", "let m = module {p = 1} => { %s let q = mod.p; %s };\nlet r = m{};\n" % (first, second)))
                # different scopes: not a rebinding
                cases.append(("ok", lab + ":file-then-module", first + "\nlet m = module {} => { %s };\nlet r = m{};\n" % second))
                cases.append(("ok", lab + ":module-then-file", "let m = module {} => { %s };\nlet r = m{};\n" % first + second + "\n"))
                cases.append(("ok", lab + ":two-modules", "let m1 = module {} => { %s };\nlet m2 = module {} => { %s };\nlet r1 = m1{};\nlet r2 = m2{};\n" % (first, second)))
        cases.append(("fail", "param-then-param:duplicate-parameter", "let f = func (%s, %s) => 1;\nlet r = f(1, 2);\n" % (n, n)))
        cases.append(("fail", "param-then-param:duplicate-parameter-apart", "let f = func (%s, other, %s) => other;\nlet r = f(1, 2, 3);\n" % (n, n)))
        cases.append(("fail", "param-then-param:duplicate-parameter-uncalled", "let f = func (%s, %s) => 1;\n" % (n, n)))
        cases.append(("fail", "param-then-param:duplicate-callback-parameter", "let r = reduce(func (%s, %s) => 1, 0, [1]);\n" % (n, n)))
        cases.append(("ok", "param-then-param:same-name-in-two-functions", "let f = func (%s) => 1;\nlet g = func (%s) => 2;\nlet r = f(1) + g(2);\n" % (n, n)))
        cases.append(("ok", "let-then-constraint:distinct-names", "let %s = 1;\nconstraint %s2 = 1 | 2;\nlet v :: %s2 = %s;\n" % (n, n, n, n)))
    import tempfile
    d = os.path.join(core.SCRATCH, "c10r-%d" % os.getpid())
    os.makedirs(d, exist_ok=True)
    for i, (want, label, text) in enumerate(cases):
        # immutability does not depend on the --no-strict flag (which is about unset environment variables and missing
        # fields): the same verdict with strict checking off, in the library and (every 7th case) through the real CLI
        for mode in ("eval", "build", "eval-no-strict", "build-no-strict") + (("cli-no-strict",) if i % 7 == 0 else ()):
            if mode.startswith("eval"):
                st, b = run_text(probe, text, fresh=False, strict=(mode == "eval"))
            elif mode == "cli-no-strict":
                with core.TempProject("c10ns") as tp:
                    tp.write("r.ucg", text)
                    ev = core.run_cli(["--no-strict", "build", "r.ucg"], tp.root)
                    st = "ok" if ev["exit"] == 0 else ("fail" if ev["exit"] == 1 and not ev.get("signal") else "crash")
            else:
                path = os.path.join(d, "r%d.ucg" % i)
                with open(path, "w") as f:
                    f.write(text)
                rr = probe.safe_call({"op": "build", "path": path, "strict": (mode == "build"), "reuse_max": 100}, timeout=20.0)
                os.remove(path)
                st = "ok" if rr.get("ok") else ("fail" if "err" in rr else "crash")
            res.case((mode, text))
            res.count("rebinding:" + label.split(":")[1] + ":" + mode)
            if st not in ("ok", "fail"):
                res.count("rebinding-" + st)
            elif want == "fail" and st == "ok":
                res.violation(["rebinding-accepted", label.split(":")[0], label.split(":")[1], mode], {"text": text, "mode": mode, "want": want}, {})
            elif want == "ok" and st == "fail":
                res.violation(["separate-scopes-rejected", label.split(":")[0], label.split(":")[1], mode], {"text": text, "mode": mode, "want": want}, {})
    import shutil
    shutil.rmtree(d, ignore_errors=True)
    res.sample({"rebinding_case": cases[3][2]})
    probe.stop()
    return res


def dispatch(task):
    kind, args = task
    return {"prefix": task_prefix, "scoping": task_scoping, "reserved": task_reserved, "rebinding": task_rebinding, "repl": task_repl}[kind](args)


def run(tier, seed, t0):
    q = tier == "quick"
    n = 3000 if q else 40000
    sh = 32 if q else 128
    tasks = [("prefix", (seed, i, n // sh, 4 if q else 6, 8 if q else 12)) for i in range(sh)]
    ns = 64 if q else 2000
    tasks += [("scoping", (seed, i, max(1, ns // 16))) for i in range(16)]
    tasks += [("reserved", None), ("rebinding", None)]
    tasks += [("repl", (seed, i, 6 if q else 40)) for i in range(8)]
    res = core.run_parallel(dispatch, tasks)
    return core.finish("C10", tier, seed, res, RULE, t0, replay_known=replay_known,
                       assumptions=["the reserved list is the one published in reference/_index.md",
                                    "scoping templates are judged by vf/refint.py (closures capture the definition-time scope; "
                                    "module bodies see only `mod`)"])


def check_witness(w):
    res = core.Result()
    probe = core.Probe()
    try:
        if "session" in w:
            with core.TempProject("c10r") as tp:
                ev = core.run_cli(["repl"], tp.root, stdin=("\n".join(w["session"]) + "\n").encode("utf-8"), timeout=30.0, merge=True)
            values = [l.strip() for l in ev["stdout"].split("\n") if re.match(r"^-?[0-9]+$", l.strip())]
            first = re.search(r"= (-?[0-9]+);", w["session"][0])
            if first and values and any(v not in (first.group(1), str(int(first.group(1)) + 100)) for v in values):
                res.violation(["repl", "binding-changed-by-rejected-rebinding"], w, {"values_printed": values})
        elif "ast_repr" in w:
            import ast
            stmts = ast.literal_eval(w["ast_repr"])
            v, d, text = c01.judge_program(probe, stmts, fresh=True)
            if v == "violated":
                res.violation(["scoping"], w, d)
        elif "prefix_len" in w:
            # re-run as text: split on statement lines
            lines = w["text"].strip().split("\n")
            st_n, b_n = run_text(probe, w["text"], True)
            st_k, b_k = run_text(probe, "\n".join(lines[:w["prefix_len"]]) + "\n", True)
            if st_k == "fail" and st_n == "ok":
                res.violation(["prefix-fails-but-program-succeeds"], w, {})
            if st_k == "ok" and st_n == "ok":
                if any(n not in b_n or not refint.same(v, b_n[n]) for n, v in b_k.items()):
                    res.violation(["binding-changes-value"], w, {})
        elif "want" in w:
            st, b = run_text(probe, w["text"], True, strict=not str(w.get("mode", "")).endswith("no-strict"))
            if w["want"] == "fail" and st == "ok":
                res.violation(["rebinding-accepted"], w, {})
            if w["want"] == "ok" and st == "fail":
                res.violation(["separate-scopes-rejected"], w, {})
        else:
            st, b = run_text(probe, w["text"], True)
            if st == "ok":
                res.violation(["reserved-word-accepted"], w, {})
    finally:
        probe.stop()
    return res


def replay_known(entry):
    return bool(check_witness(entry.get("witness", {})).violations)


def replay(path, tier, seed):
    d = json.load(open(path))
    res = check_witness(d["witness"])
    if res.violations:
        print("VIOLATION property=C10 replay=%s" % path)
        print(json.dumps(res.violations[0], indent=1, default=str)[:1500])
        return 1
    print("replay: no violation")
    return 0
