"""C06 - a `::` constraint on a binding admits exactly the conforming values (shape-conformance model)."""
import json
import os
import shutil
import struct

from .. import core, gen

RULE = ("pairs (constraint, value): constraints from the grammar of the quantifier (primitive / tuple / list exemplars "
        "nested to depth 3, int and float ranges closed and half-open, alternations of 1..4 literals and ranges), each "
        "written inline, behind `constraint n = ..;` and (exemplars) behind `let n = ..;`; values literal and computed "
        "(arithmetic, concatenation, call results, selector results, copies, select results) of every type incl. the "
        "boundary values lo-1, lo, hi, hi+1 and the float neighbours. The file `let v :: C = V;` is built through "
        "FileBuilder::build (checker + VM) and, for a sample, `ucg build`; it must build iff vf/props/c06.conform "
        "says the value conforms, and the three spellings of one constraint must agree. NULL values give no verdict. "
        "distinct = distinct (constraint, value, spelling); non-trivial = composite constraint, range boundary, "
        "alternation or computed value.")
RULE += (" " + "Also: part of an alternation behind a constraint name used as one arm of the rest (two spellings); function and module values (computed, so that only the run-time check sees them) against every constraint; lists resampled from a subset of a mixed list exemplar's element shapes with 0 .. 2n+1 and 7 elements, at any depth.")

# ------------------------------------------------------------------------------------------ model
# model values: ("i", n) ("f", x) ("s", str) ("b", bool) ("n",) ("l", [..]) ("t", [(k, v)..])
# constraints: ("ex", value) | ("range", "i"|"f", lo|None, hi|None) | ("alt", [arm..]) with arm = ("ex", v) | ("range", ..)


def tname(v):
    return v[0]


def conform_exemplar(e, v):
    """None = no verdict (NULL involved)"""
    if e[0] == "n" or v[0] == "n":
        return None
    if e[0] in "ifsb":
        return e[0] == v[0]
    if e[0] == "t":
        if v[0] != "t":
            return False
        en = [k for k, _ in e[1]]
        vn = [k for k, _ in v[1]]
        if not (set(en) <= set(vn) or set(vn) <= set(en)):
            return False
        vd = dict(v[1])
        unknown = False
        for k, ev in e[1]:
            if k in vd:
                c = conform_exemplar(ev, vd[k])
                if c is None:
                    unknown = True
                elif not c:
                    return False
        return None if unknown else True
    if e[0] == "l":
        if v[0] != "l":
            return False
        if not e[1] or not v[1]:
            return True

        def admitted(xs, ys, flip):
            res = True
            for x in xs:
                got = False
                unk = False
                for y in ys:
                    c = conform_exemplar(y, x) if not flip else conform_exemplar(x, y)
                    if c:
                        got = True
                        break
                    if c is None:
                        unk = True
                if not got:
                    if unk:
                        res = None if res is True else res
                    else:
                        return False
            return res
        a = admitted(v[1], e[1], False)      # every value element admitted by some exemplar element
        b = admitted(e[1], v[1], True)       # every exemplar element admits some value element
        if a or b:
            return True
        if a is None or b is None:
            return None
        return False
    return None


def deep_eq(a, b):
    if a[0] != b[0]:
        return False
    if a[0] in "ifsb":
        return a[1] == b[1]
    if a[0] == "n":
        return True
    if a[0] == "l":
        return len(a[1]) == len(b[1]) and all(deep_eq(x, y) for x, y in zip(a[1], b[1]))
    if a[0] == "t":
        # equality of tuples: the reference says order matters, ucg ignores it -> permuted tuples are not generated as alternatives
        return len(a[1]) == len(b[1]) and all(x[0] == y[0] and deep_eq(x[1], y[1]) for x, y in zip(a[1], b[1]))
    return False


def in_range(arm, v):
    _, t, lo, hi = arm
    if v[0] != t:
        return False
    x = v[1]
    if x != x:
        return False
    return (lo is None or x >= lo) and (hi is None or x <= hi)


def conform(c, v):
    """True / False / None (no verdict)"""
    if v[0] == "n":
        return None
    if c[0] == "ex":
        return conform_exemplar(c[1], v)
    if c[0] == "range":
        return in_range(c, v)
    if c[0] == "alt":
        if len(c[1]) == 1:
            return conform(c[1][0], v)
        for arm in c[1]:
            if arm[0] == "range":
                if in_range(arm, v):
                    return True
            elif arm[1][0] == "n":
                return None
            elif deep_eq(arm[1], v):
                return True
        return False
    raise ValueError(c)


# ------------------------------------------------------------------------------------------ source text

def ftext(x):
    from decimal import Decimal
    s = format(Decimal(repr(abs(x))), "f")
    if "." not in s:
        s += ".0"
    return s if x >= 0 and not str(x).startswith("-") else "(0.0 - %s)" % s


def itext(n):
    return str(n) if n >= 0 else "(0 - %d)" % -n


def vtext(v):
    k = v[0]
    if k == "i":
        return itext(v[1])
    if k == "f":
        return ftext(v[1])
    if k == "s":
        return gen.quote(v[1])
    if k == "b":
        return "true" if v[1] else "false"
    if k == "n":
        return "NULL"
    if k == "l":
        return "[" + ", ".join(vtext(x) for x in v[1]) + "]"
    if k == "t":
        return "{" + ", ".join("%s = %s" % (gen.field_name_src(n), vtext(x)) for n, x in v[1]) + "}"
    raise ValueError(v)


def bound_text(v):
    """range bounds must be simple or grouped expressions"""
    t = vtext(v)
    return t


def ctext(c):
    if c[0] == "ex":
        return vtext(c[1])
    if c[0] == "range":
        lo = "" if c[2] is None else bound_text((c[1], c[2]))
        hi = "" if c[3] is None else bound_text((c[1], c[3]))
        return "in %s..%s" % (lo, hi)
    if c[0] == "alt":
        return " | ".join(ctext(a) for a in c[1])
    raise ValueError(c)


def computed_forms(r, v):
    """source texts that evaluate to v without being a literal of it; -> list of (label, prelude, expr)"""
    k = v[0]
    out = []
    if k == "i":
        a = r.randint(-5, 5)
        out.append(("arithmetic", "", "%s + %s" % (itext(v[1] - a), itext(a))))
        out.append(("call-result", "let cf = func (x) => x;\n", "cf(%s)" % itext(v[1])))
        out.append(("selector-result", "let ct = {k = %s, o = \"s\"};\n" % itext(v[1]), "ct.k"))
        out.append(("select-result", "", "select (\"a\", 0) => {a = %s}" % itext(v[1])))
        out.append(("list-index", "", "[%s, 7].0" % itext(v[1])))
    elif k == "s":
        h = len(v[1]) // 2
        out.append(("concatenation", "", "%s + %s" % (gen.quote(v[1][:h]), gen.quote(v[1][h:]))))
        out.append(("call-result", "let cf = func (x) => x;\n", "cf(%s)" % gen.quote(v[1])))
        out.append(("selector-result", "let ct = {k = %s};\n" % gen.quote(v[1]), "ct.k"))
    elif k == "f":
        out.append(("call-result", "let cf = func (x) => x;\n", "cf(%s)" % ftext(v[1])))
        out.append(("selector-result", "let ct = {k = %s};\n" % ftext(v[1]), "ct.k"))
    elif k == "b":
        out.append(("comparison", "", "1 < 2" if v[1] else "2 < 1"))
        out.append(("call-result", "let cf = func (x) => x;\n", "cf(%s)" % vtext(v)))
    elif k == "l":
        out.append(("concatenation", "", "%s + []" % vtext(v)))
        out.append(("call-result", "let cf = func (x) => x;\n", "cf(%s)" % vtext(v)))
        out.append(("selector-result", "let ct = {k = %s};\n" % vtext(v), "ct.k"))
    elif k == "t":
        out.append(("copy", "let cb = %s;\n" % vtext(v), "cb{}"))
        out.append(("call-result", "let cf = func (x) => x;\n", "cf(%s)" % vtext(v)))
        out.append(("selector-result", "let ct = {k = %s};\n" % vtext(v), "ct.k"))
    return out


# ------------------------------------------------------------------------------------------ generators

STRS = ["", "a", "active", "inactive", "x y"]
NAMES = ["a", "b", "c", "host", "port"]


def rand_prim(r, t=None):
    t = t or r.choice("ifsb")
    if t == "i":
        return ("i", r.choice([0, 1, 2, 5, 10, 80, 1024, 65535, -1, -7]))
    if t == "f":
        return ("f", r.choice([0.0, 0.5, 1.0, 1.5, 2.25, -1.0, 100.0]))
    if t == "s":
        return ("s", r.choice(STRS))
    return ("b", r.random() < 0.5)


def rand_val(r, depth):
    x = r.random()
    if depth <= 0 or x < 0.5:
        return rand_prim(r) if r.random() > 0.04 else ("n",)
    if x < 0.75:
        return ("l", [rand_val(r, depth - 1) for _ in range(r.randint(0, 3))])
    ns = r.sample(NAMES, r.randint(0, 3))
    return ("t", [(n, rand_val(r, depth - 1)) for n in ns])


def mutate_val(r, v, depth=2):
    """a value related to v: same, a field removed/added/retyped, an element added, other type..."""
    x = r.random()
    if v[0] == "t" and v[1] and x < 0.6:
        f = list(v[1])
        y = r.random()
        if y < 0.25:
            del f[r.randrange(len(f))]
        elif y < 0.5:
            f.append((r.choice([n for n in NAMES + ["zz"] if n not in dict(f)] or ["zz"]), rand_val(r, 1)))
        elif y < 0.75:
            i = r.randrange(len(f))
            f[i] = (f[i][0], rand_val(r, 1))
        else:
            i = r.randrange(len(f))
            f[i] = (f[i][0], mutate_val(r, f[i][1], depth - 1))
        return ("t", f)
    if v[0] == "l" and x < 0.6:
        e = list(v[1])
        y = r.random()
        if y < 0.4 or not e:
            e.append(rand_val(r, 1))
        elif y < 0.7:
            e[r.randrange(len(e))] = rand_val(r, 1)
        else:
            del e[r.randrange(len(e))]
        return ("l", e)
    if x < 0.8:
        return fresh_same_type(r, v)
    return rand_val(r, depth)


def fresh_same_type(r, v):
    if v[0] in "ifsb":
        return rand_prim(r, v[0])
    if v[0] == "l":
        return ("l", [fresh_same_type(r, x) for x in v[1]])
    if v[0] == "t":
        return ("t", [(n, fresh_same_type(r, x)) for n, x in v[1]])
    return v


def nextafter(x, up):
    import math
    return math.nextafter(x, math.inf if up else -math.inf)


def rand_range(r):
    if r.random() < 0.6:
        lo, hi = sorted([r.choice([0, 1, 10, 1024, -5]), r.choice([5, 80, 65535, 1024, 100])])
        t = "i"
    else:
        lo, hi = sorted([r.choice([0.0, 0.5, -1.0, 1.0]), r.choice([1.0, 2.5, 100.0, 0.75])])
        t = "f"
    y = r.random()
    if y < 0.2:
        lo = None
    elif y < 0.4:
        hi = None
    return ("range", t, lo, hi)


def boundary_values(r, rng):
    _, t, lo, hi = rng
    out = []
    for b in (lo, hi):
        if b is None:
            continue
        if t == "i":
            out += [("i", b - 1), ("i", b), ("i", b + 1)]
        else:
            out += [("f", nextafter(b, False)), ("f", b), ("f", nextafter(b, True)), ("f", b - 1.0), ("f", b + 1.0)]
    out += [("i", 3) if t == "f" else ("f", 3.0), ("s", "5"), ("b", True)]
    return out


def rand_constraint(r):
    x = r.random()
    if x < 0.45:
        return ("ex", rand_val_no_null(r, r.choice([0, 1, 2, 3])))
    if x < 0.7:
        return rand_range(r)
    arms = []
    for _ in range(r.randint(1, 4)):
        if r.random() < 0.35:
            arms.append(rand_range(r))
        else:
            arms.append(("ex", rand_prim(r) if r.random() < 0.8 else rand_val_no_null(r, 1)))
    return ("alt", arms)


def rand_val_no_null(r, depth):
    for _ in range(20):
        v = rand_val(r, depth)
        if not has_null(v):
            return v
    return ("i", 0)


def has_null(v):
    if v[0] == "n":
        return True
    if v[0] == "l":
        return any(has_null(x) for x in v[1])
    if v[0] == "t":
        return any(has_null(x) for _, x in v[1])
    return False


def list_variants(r, v):
    """for a value holding a list (at any depth): the list resampled from SOME of its element shapes, shorter and longer"""
    if v[0] == "l" and v[1]:
        n = r.choice([0, 1, len(v[1]), len(v[1]) + 1, 2 * len(v[1]) + 1, 7])
        shapes = r.sample(v[1], r.randint(1, len(v[1])))
        return ("l", [fresh_same_type(r, r.choice(shapes)) for _ in range(n)])
    if v[0] == "t" and v[1]:
        i = r.randrange(len(v[1]))
        f = list(v[1])
        f[i] = (f[i][0], list_variants(r, f[i][1]))
        return ("t", f)
    return fresh_same_type(r, v)


def has_list(v):
    return v[0] == "l" or (v[0] == "t" and any(has_list(x) for _, x in v[1]))


def values_for(r, c):
    out = []
    if c[0] == "ex":
        out += [c[1], fresh_same_type(r, c[1]), mutate_val(r, c[1]), mutate_val(r, c[1]), rand_val(r, 2)]
        if has_list(c[1]):
            out += [list_variants(r, c[1]), list_variants(r, c[1]), list_variants(r, c[1])]
    elif c[0] == "range":
        out += boundary_values(r, c)
        out += [rand_prim(r, c[1])]
    else:
        for arm in c[1]:
            if arm[0] == "range":
                out += r.sample(boundary_values(r, arm), 4)
            else:
                out += [arm[1], fresh_same_type(r, arm[1])]
        out += [rand_prim(r), rand_val(r, 1)]
    return out


# ------------------------------------------------------------------------------------------ judge

def programs(c, vsrc, prelude=""):
    """the spellings of one constraint: inline, named constraint, let-bound exemplar"""
    ct = ctext(c)
    out = [("inline", prelude + "let v :: %s = %s;\n" % (ct, vsrc)),
           ("named-constraint", prelude + "constraint cn = %s;\nlet v :: cn = %s;\n" % (ct, vsrc))]
    if c[0] == "ex":
        out.append(("let-bound-exemplar", prelude + "let shape = %s;\nlet v :: shape = %s;\n" % (ct, vsrc)))
    if c[0] == "alt" and len(c[1]) >= 2:
        # part of the alternation behind a name of its own, used as one arm of the rest (a lone literal is not named:
        # on its own it would be an exemplar, which is a different constraint)
        k = 1 if c[1][0][0] == "range" else (2 if len(c[1]) >= 3 else 0)
        if k:
            named, rest = ("alt", c[1][:k]) if k > 1 else c[1][0], ("alt", c[1][k:])
            out.append(("named-constraint-as-arm", prelude + "constraint part = %s;\nlet v :: part | %s = %s;\n" % (ctext(named), ctext(rest), vsrc)))
            out.append(("named-constraint-as-arm-of-named", prelude + "constraint part = %s;\nconstraint cn = %s | part;\nlet v :: cn = %s;\n"
                        % (ctext(named), ctext(rest), vsrc)))
    return out


def ckind(c):
    if c[0] == "ex":
        return "exemplar-" + {"i": "prim", "f": "prim", "s": "prim", "b": "prim", "l": "list", "t": "tuple"}[c[1][0]]
    if c[0] == "range":
        return "range-" + c[1] + ("-open" if c[2] is None or c[3] is None else "")
    return "alternation-%d" % len(c[1]) if len(c[1]) > 1 else "single-arm"


def judge(env, c, v, res, vsrc=None, label="literal", prelude=""):
    want = conform(c, v)
    if want is None:
        res.count("no-verdict-null")
        return
    vsrc = vsrc if vsrc is not None else vtext(v)
    outcomes = {}
    for spelling, text in programs(c, vsrc, prelude):
        env["n"] += 1
        path = os.path.join(env["dir"], "c%d.ucg" % env["n"])
        with open(path, "w", encoding="utf-8") as f:
            f.write(text)
        rr = env["probe"].safe_call({"op": "build", "path": path, "strict": True, "reuse_max": 100}, timeout=20.0)
        try:
            os.remove(path)
        except OSError:
            pass
        nontriv = c[0] != "ex" or c[1][0] in "lt" or label != "literal"
        res.case((text,), nontrivial=nontriv)
        if "panic" in rr or "crash" in rr or "hang" in rr or "inconclusive" in rr:
            res.count("crash-left-to-C04")
            continue
        built = bool(rr.get("ok"))
        outcomes[spelling] = built
        if built != want:
            res.violation(["admits-nonconforming" if built else "rejects-conforming", ckind(c), spelling, label, "value:" + v[0]],
                          {"text": text, "expect_build": want}, {"err": rr.get("err", "")[:300], "constraint": ctext(c), "value": vsrc})
        else:
            res.count("agree:" + ("admit" if want else "reject"))
    if len(set(outcomes.values())) > 1:
        res.violation(["spellings-disagree", ckind(c), label], {"text": programs(c, vsrc, prelude)[0][1], "expect_build": want}, {"outcomes": outcomes})


def mkenv(tag):
    d = os.path.join(core.SCRATCH, "c06-%s-%d" % (tag, os.getpid()))
    os.makedirs(d, exist_ok=True)
    return {"probe": core.Probe(), "dir": d, "n": 0}


CODE_VALUES = [("function-value", "let cf = func (x) => x;\n", "cf(func () => 1)"), ("function-value", "let cf = func (x) => x;\nlet cg = func (a) => a;\n", "cf(cg)"),
               ("module-value", "let cf = func (x) => x;\n", "cf(module {} => {})"), ("function-in-selector", "let ct = {k = func () => 1};\n", "ct.k")]


def task(args):
    seed, idx, count = args
    r = core.rng_for(seed, "c06", idx)
    res = core.Result()
    env = mkenv(str(idx))
    try:
        for c_ in range(count):
            c = rand_constraint(r)
            if r.random() < 0.15 and not (c[0] == "ex" and c[1][0] == "n"):
                # a function or a module is a value too, and conforms to no data constraint
                label, prelude, expr = r.choice(CODE_VALUES)
                for spelling, text in programs(c, expr, prelude):
                    env["n"] += 1
                    path = os.path.join(env["dir"], "c%d.ucg" % env["n"])
                    with open(path, "w", encoding="utf-8") as f:
                        f.write(text)
                    rr = env["probe"].safe_call({"op": "build", "path": path, "strict": True, "reuse_max": 100}, timeout=20.0)
                    os.remove(path)
                    res.case((text,), nontrivial=True)
                    if "panic" in rr or "crash" in rr or "hang" in rr or "inconclusive" in rr:
                        res.count("crash-left-to-C04")
                    elif rr.get("ok"):
                        res.violation(["admits-nonconforming", ckind(c), spelling, label, "value:code"], {"text": text, "expect_build": False},
                                      {"constraint": ctext(c), "value": expr})
                    else:
                        res.count("agree:reject-code-value")
            for v in values_for(r, c):
                judge(env, c, v, res)
                if r.random() < 0.35 and v[0] != "n":
                    forms = computed_forms(r, v)
                    if forms:
                        label, prelude, expr = r.choice(forms)
                        judge(env, c, v, res, vsrc=expr, label=label, prelude=prelude)
            res.count("constraint:" + ckind(c))
            if c_ < 1 and idx < 3:
                res.sample({"constraint": ctext(c), "values": [vtext(v) for v in values_for(r, c)[:4]]})
            if c_ % 40 == 0:
                v = values_for(r, c)[0]
                want = conform(c, v)
                if want is not None:
                    with core.TempProject("c06") as tp:
                        tp.write("f.ucg", "let v :: %s = %s;\n" % (ctext(c), vtext(v)))
                        ev = core.run_cli(["build", "f.ucg"], tp.root)
                        if ev["exit"] in (0, 1) and (ev["exit"] == 0) != want:
                            res.violation(["cli-disagrees", ckind(c)], {"text": "let v :: %s = %s;\n" % (ctext(c), vtext(v)), "expect_build": want}, {"exit": ev["exit"]})
                        if ev["exit"] == 1 and not ev["stderr"].strip():
                            res.violation(["rejected-without-diagnostic"], {"text": "let v :: %s = %s;\n" % (ctext(c), vtext(v)), "expect_build": want}, {})
                        res.count("cli-runs")
    finally:
        env["probe"].stop()
        shutil.rmtree(env["dir"], ignore_errors=True)
    return res


def run(tier, seed, t0):
    q = tier == "quick"
    n = 4800 if q else 80000
    sh = 32 if q else 128
    tasks = [(seed, i, n // sh) for i in range(sh)]
    res = core.run_parallel(task, tasks)
    return core.finish("C06", tier, seed, res, RULE, t0, replay_known=replay_known,
                       assumptions=["conformance is the statement read literally (see conform()); a single non-range arm is an exemplar",
                                    "NULL values and NULL inside exemplars give no verdict; recursive constraints are outside the quantifier",
                                    "tuples with permuted fields are not used as alternation arms (reference and implementation disagree on their equality)"])


def check_text(text, expect):
    res = core.Result()
    env = mkenv("r")
    try:
        path = os.path.join(env["dir"], "r.ucg")
        open(path, "w", encoding="utf-8").write(text)
        rr = env["probe"].safe_call({"op": "build", "path": path, "strict": True})
        if "ok" in rr and bool(rr.get("ok")) != expect:
            res.violation(["replay-mismatch"], {"text": text, "expect_build": expect}, {"err": rr.get("err", "")[:300]})
    finally:
        env["probe"].stop()
        shutil.rmtree(env["dir"], ignore_errors=True)
    return res


def replay_known(entry):
    w = entry.get("witness", {})
    if "text" not in w:
        return None
    return bool(check_text(w["text"], w["expect_build"]).violations)


def replay(path, tier, seed):
    d = json.load(open(path))
    res = check_text(d["witness"]["text"], d["witness"]["expect_build"])
    if res.violations:
        print("VIOLATION property=C06 replay=%s" % path)
        print(json.dumps(res.violations[0], indent=1)[:1500])
        return 1
    print("replay: no violation")
    return 0
