"""C18 - `env` exposes the process environment, nothing else, and cannot be shadowed."""
import json
import os
import re

from .. import core, gen, values

RULE = ("random environments of 0..20 variables (names over [A-Za-z0-9_] incl. leading underscore/digit, lower case, "
        "single letters; values arbitrary Unicode without NUL incl. empty, blanks, quotes, newlines, `=`, very long), "
        "passed to the real `ucg [--no-strict] build` as its complete environment; programs read set and unset names "
        "(bareword and quoted selectors) into `out json`. Oracle: the decoded artifact equals the value passed to the "
        "process; an unset name fails the strict build with a diagnostic containing the name, and is NULL with "
        "--no-strict; 128-bit random secrets planted in unrelated variables must not occur anywhere in the output of "
        "a failing run; `let env = ..` is rejected; `{env = 5}.env`, `t.env`, a parameter-free tuple field named env "
        "and `env` inside functions and modules still mean what they say. distinct = distinct (environment, program); "
        "non-trivial = >= 2 variables or a failing run with planted secrets.")
RULE += (" " + 'Also: in 20 % of the runs an unrelated variable whose value is not valid UTF-8 (a run that dies while reading set variables is a violation); values of 70,000 and 100,000 characters.')
RULE += (" " + '60 % of the unset names are near misses of a variable that is set, mostly one that carries a secret (other case, one character more, less or different).')
RULE += (" " + 'The unset name is read in one of 12 contexts (file level, function, module body / out expression / parameter default, function in module, module in function, format template, map / reduce callback, select arm, copy field); 40 % of the cases also run under `ucg test` strict and --no-strict.')
RULE += (" " + 'Every fourth case runs with exactly 0, 1 or 2 variables (not even PATH or HOME): `out json env`, set reads, the unset read in both modes.')
RULE += (" " + 'Half of the cases read the set variables in one let per variable (30 % of those through an alias `let e = env;`) instead of inside one tuple literal.')

NAME_POOL = ["A", "B", "HOME", "PATH_X", "x", "lower_case", "MiXed", "_LEAD", "__", "A1", "A_B_C", "Z9_", "LONG_" + "N" * 40, "env", "self", "let",
             "NULL", "true", "mod", "item", "in", "SECRET_TOKEN", "DB_PASSWORD", "a"]
VALUE_POOL = ["", " ", "v", "with space", "a=b", "=", "'single'", "\"double\"", "back\\slash", "line1\nline2", "\ttab", "é ü 中", "\U0001F600", "$HOME",
              "`x`", "x" * 3000, "y" * 70000, ("ab \u00e9\n" * 9000), "trail ", "{\"json\": 1}", "[1]", "NULL", "true", "0", "-1", "1.5", "\r\n", "@{item}", "%", ";"]


def sel(name):
    if gen.BAREWORD_RE.match(name) and name not in ("true", "false", "NULL"):
        return "env." + name
    return "env." + gen.quote(name)


def secret(r):
    return "".join(r.choice("0123456789abcdef") for _ in range(32))


def gen_env(r):
    n = r.randint(0, 20)
    env = {}
    for _ in range(n):
        name = r.choice(NAME_POOL) if r.random() < 0.7 else "V" + "".join(r.choice("ABCxyz019_") for _ in range(r.randint(1, 8)))
        if name in ("PATH", "HOME"):
            continue
        val = r.choice(VALUE_POOL) if r.random() < 0.7 else values.rand_string(r, 0.3).replace("\x00", "")
        env[name] = val
    return env


def build(tp, env, argv, text, bystander=None):
    tp.write("f.ucg", text)
    art = tp.path("f.json")
    if os.path.exists(art):
        os.remove(art)
    e = dict(env)
    if bystander:
        # an unrelated variable whose value is not valid UTF-8 (the operating system allows it)
        e[bystander[0]] = bystander[1]
    ev = core.run_cli(argv + ["build", "f.ucg"], tp.root, env=e, timeout=30.0, home=tp.path("home"))
    data = None
    if os.path.exists(art):
        data = open(art, "rb").read()
    return ev, data


READ_CONTEXTS = [
    ("file-level", "let v = %(x)s;\n"),
    ("file-level", "let v = %(x)s;\n"),
    ("function-body", "let f = func () => %(x)s;\nlet v = f();\n"),
    ("module-body", "let m = module {} => (r) { let r = %(x)s; };\nlet v = m{};\n"),
    ("module-out-expression", "let m = module {} => (%(x)s) { let unused = 1; };\nlet v = m{};\n"),
    ("function-called-in-module-body", "let m = module {} => (r) { let f = func () => %(x)s; let r = f(); };\nlet v = m{};\n"),
    ("module-instantiated-in-function", "let m = module {} => (r) { let r = %(x)s; };\nlet f = func () => m{};\nlet v = f();\n"),
    ("format-template", "let v = \"@{%(x)s}\" %% 1;\n"),
    ("map-callback", "let v = map(func (i) => %(x)s, [1]).0;\n"),
    ("reduce-callback", "let v = reduce(func (acc, i) => %(x)s, 0, [1]);\n"),
    ("select-arm", "let v = select (\"a\", 0) => {a = %(x)s};\n"),
    ("tuple-field-of-copy", "let t = {a = 1};\nlet v = t{a = %(x)s}.a;\n"),
    ("module-parameter-default", "let m = module {p = %(x)s} => (mod.p) { let unused = 1; };\nlet v = m{};\n"),
]


def run_bare(argv, cwd, env):
    """the real binary with EXACTLY the given environment (run_cli always adds PATH and HOME)"""
    import subprocess
    try:
        p = subprocess.run([core.UCG] + argv, cwd=cwd, env=env, stdout=subprocess.PIPE, stderr=subprocess.PIPE, timeout=30.0)
    except subprocess.TimeoutExpired:
        return {"exit": None, "signal": None, "hang": True, "stdout": "", "stderr": ""}
    return {"exit": p.returncode if p.returncode >= 0 else None, "signal": -p.returncode if p.returncode < 0 else None,
            "stdout": p.stdout.decode("utf-8", "replace"), "stderr": p.stderr.decode("utf-8", "replace")}


def judge_tiny_env(r, res, fixed=None):
    """environments of 0, 1 and 2 variables, nothing else (not even HOME or PATH): `env` is the tuple of exactly those"""
    if fixed is not None:
        env, cn = fixed
        n = len(env)
        ctx_name, ctx = [c for c in READ_CONTEXTS if c[0] == cn][0] if cn else READ_CONTEXTS[0]
    else:
        n = r.choice([0, 0, 1, 2])
        env = {}
        for i in range(n):
            env[r.choice(["A", "ONLY", "X_1", "lower", "Z9"]) + str(i)] = r.choice(["", "v", "two words", "\u00e9"])
        ctx_name, ctx = r.choice(READ_CONTEXTS)
    with core.TempProject("c18e") as tp:
        witness = {"env": env, "exact_environment": True}
        res.case((json.dumps(env, sort_keys=True), "tiny-env", ctx_name), nontrivial=True)
        res.count("tiny-environment:%d-variables" % n)
        # the whole environment as a value
        tp.write("w.ucg", "out json env;\n")
        ev = run_bare(["build", "w.ucg"], tp.root, env)
        doc = None
        if ev["exit"] == 0 and os.path.exists(tp.path("w.json")):
            try:
                doc = json.loads(open(tp.path("w.json"), "rb").read().decode("utf-8"))
            except ValueError:
                doc = "unreadable"
        if ev.get("hang") or ev["signal"] or ev["exit"] not in (0, 1):
            res.count("crash-left-to-C04")
            return
        if doc != env:
            res.violation(["whole-env-differs", "%d-variables" % n], dict(witness, text="out json env;\n"),
                          {"exit": ev["exit"], "artifact": doc, "output": (ev["stdout"] + ev["stderr"])[-300:]})
            return
        # an unset name, strict and not
        missing = "C18_UNSET"
        text = ctx % {"x": "env." + missing} + "out json {v = v};\n"
        tp.write("u.ucg", text)
        w2 = dict(witness, text=text, missing=missing, context=ctx_name)
        ev = run_bare(["build", "u.ucg"], tp.root, env)
        if ev["exit"] == 0:
            res.violation(["unset-variable-builds-in-strict-mode", ctx_name, "tiny-environment"], w2, {})
            return
        if ev["exit"] == 1 and missing not in ev["stdout"] + ev["stderr"]:
            res.violation(["diagnostic-does-not-name-the-variable", "tiny-environment"], w2, {"output": (ev["stdout"] + ev["stderr"])[-300:]})
            return
        ev = run_bare(["--no-strict", "build", "u.ucg"], tp.root, env)
        if ev["exit"] != 0:
            res.violation(["unset-variable-fails-in-non-strict-mode", ctx_name, "tiny-environment"], w2, {"output": (ev["stdout"] + ev["stderr"])[-300:]})
            return
        # every set name reads back
        if env:
            text = "out json {%s};\n" % ", ".join("k%d = env.%s" % (i, k) for i, k in enumerate(env))
            tp.write("s.ucg", text)
            ev = run_bare(["build", "s.ucg"], tp.root, env)
            got = None
            if ev["exit"] == 0:
                got = json.loads(open(tp.path("s.json"), "rb").read().decode("utf-8"))
            if got != {"k%d" % i: v for i, (k, v) in enumerate(env.items())}:
                res.violation(["env-value-differs", "tiny-environment"], dict(witness, text=text), {"artifact": got, "output": (ev["stdout"] + ev["stderr"])[-300:]})
                return
        res.count("tiny-environment-ok")


def task(args):
    seed, idx, count = args
    r = core.rng_for(seed, "c18", idx)
    res = core.Result()
    for c in range(count):
        if c % 4 == 0:
            judge_tiny_env(r, res)
        env = gen_env(r)
        secrets = {}
        for i in range(r.randint(1, 3)):
            nm = r.choice(["SECRET_%d" % i, "API_KEY_%d" % i, "DB_PASSWORD", "TOKEN%d" % i])
            secrets[nm] = secret(r)
            env[nm] = secrets[nm]
        with core.TempProject("c18") as tp:
            os.makedirs(tp.path("home"), exist_ok=True)
            full = dict(env)
            full["HOME"] = tp.path("home")
            full["PATH"] = "/usr/bin:/bin"
            witness = {"env": {k: (v if len(v) < 200 else v[:200] + "...") for k, v in env.items()}}
            # (1) read every set variable
            names = [n for n in env if n not in secrets]
            fields = ", ".join("%s = %s" % (gen.quote("k%d" % i), sel(n)) for i, n in enumerate(names))
            text = "out json {%s};\n" % fields if names else "out json {none = 1};\n"
            if names and r.random() < 0.5:
                # the same reads as separate statements (and through an alias of env): one let per variable
                alias = r.random() < 0.3
                text = ("let e = env;\n" if alias else "") + "".join("let r%d = %s;\n" % (i, sel(n).replace("env.", "e.", 1) if alias else sel(n)) for i, n in enumerate(names)) + \
                    "out json {%s};\n" % ", ".join("%s = r%d" % (gen.quote("k%d" % i), i) for i in range(len(names)))
                res.count("set-variables-read-in-separate-statements")
            res.case((json.dumps(env, sort_keys=True), "read-all"), nontrivial=len(env) >= 2)
            bystander = None
            if r.random() < 0.2:
                bystander = (b"BYSTANDER_%d" % r.randint(0, 9), r.choice([b"\xff\xfe", b"caf\xe9", b"\x80", b"ok\xc3", b"\xed\xa0\x80", b"\xf5abc"]))
                res.count("runs-with-a-non-unicode-bystander-variable")
            ev, data = build(tp, env, [], text, bystander)
            w = dict(witness, text=text)
            if bystander:
                w["bystander_hex"] = [bystander[0].decode("ascii"), bystander[1].hex()]
            if ev["exit"] != 0 or data is None:
                if ev.get("hang") or ev["signal"] or ev["exit"] not in (0, 1):
                    # a run that dies while only reading variables that are set does not deliver their values
                    res.violation(["reading-set-variables-crashes", "with-non-unicode-bystander" if bystander else "unicode-only"], w,
                                  {"exit": ev["exit"], "signal": ev["signal"], "stderr": ev["stderr"][-300:]})
                else:
                    res.violation(["reading-set-variables-fails"], w, {"stderr": ev["stderr"][-300:]})
            else:
                try:
                    doc = json.loads(data.decode("utf-8"))
                except ValueError:
                    doc = None
                bad = [n for i, n in enumerate(names) if doc is None or doc.get("k%d" % i) != env[n]]
                if bad:
                    n = bad[0]
                    res.violation(["env-value-differs", "name-class:" + ("keywordish" if n in ("env", "self", "let", "NULL", "true", "mod", "item", "in") else "plain")],
                                  w, {"name": n, "passed": env[n][:100], "read": (doc or {}).get("k%d" % names.index(n))})
                else:
                    res.count("values-read-ok", len(names))
            # (2) unset name: strict fails naming it, without disclosing other values; --no-strict gives NULL
            missing = r.choice(["NOPE", "UNSET_VAR", "nope_lower", "X9", "Missing", "_UNDER"])
            if r.random() < 0.6:
                # a near miss of a variable that is set (most of the time one that carries a secret): other case,
                # one character less or more, one character different -- what a typo looks like
                base = r.choice(sorted(secrets) if r.random() < 0.75 or not names else names)
                if base.isidentifier():
                    missing = r.choice([base.lower(), base.upper(), base.swapcase(), base.capitalize(), base.title(), base[:-1] or "Q", base[1:] or "Q",
                                        base + "_", base + "S", base[:1] + "x" + base[2:], base[:len(base) // 2].lower() + base[len(base) // 2:]])
                    if not (missing[:1].isalpha() and missing.isidentifier() and missing.isascii()):
                        missing = "Q" + base.lower()
                    res.count("unset-name-is-a-near-miss-of-a-set-one")
            while missing in env:
                missing += "Z"
            # where the read happens: at file level, or below something that evaluates with a frame of its own
            ctx_name, ctx = r.choice(READ_CONTEXTS)
            # inside a string literal the quotes of a quoted selector are escaped
            xsel = sel(missing).replace('"', '\\"') if ctx_name == "format-template" else sel(missing)
            text2 = ctx % {"x": xsel} + "out json {v = v};\n"
            res.count("unset-read-in:" + ctx_name)
            res.case((json.dumps(env, sort_keys=True), "unset-strict", missing), nontrivial=True)
            ev, data = build(tp, env, [], text2)
            w2 = dict(witness, text=text2, missing=missing, context=ctx_name)
            outtxt = ev["stdout"] + ev["stderr"]
            if ev["exit"] == 0:
                res.violation(["unset-variable-builds-in-strict-mode", ctx_name], w2, {"artifact": (data or b"").decode("utf-8", "replace")[:100]})
            elif ev["exit"] == 1:
                if missing not in outtxt:
                    res.violation(["diagnostic-does-not-name-the-variable"], w2, {"output": outtxt[-300:]})
                leaked = [k for k, v in secrets.items() if v in outtxt]
                leaked_other = [k for k, v in env.items() if k not in secrets and len(v) >= 12 and v in outtxt]
                if leaked:
                    res.violation(["diagnostic-discloses-other-variables"], w2, {"leaked": leaked, "output_head": outtxt[:300]})
                elif leaked_other:
                    res.violation(["diagnostic-discloses-other-variables"], w2, {"leaked": leaked_other, "output_head": outtxt[:300]})
                else:
                    res.count("strict-unset-ok")
            else:
                res.count("crash-left-to-C04")
            res.case((json.dumps(env, sort_keys=True), "unset-nostrict", missing), nontrivial=True)
            ev, data = build(tp, env, ["--no-strict"], text2)
            if ev["exit"] != 0 or data is None:
                res.violation(["unset-variable-fails-in-non-strict-mode", ctx_name], w2, {"stderr": ev["stderr"][-300:]})
            else:
                try:
                    doc = json.loads(data.decode("utf-8"))
                except ValueError:
                    doc = {}
                if doc.get("v", "absent") is not None and not (ctx_name == "format-template" and doc.get("v") == "NULL"):
                    res.violation(["unset-variable-not-null-in-non-strict-mode"], w2, {"artifact": doc})
                else:
                    res.count("nostrict-unset-null")
                leaked = [k for k, v in secrets.items() if v in ev["stdout"] + ev["stderr"]]
                if leaked:
                    res.violation(["non-strict-warning-discloses-other-variables"], w2, {"leaked": leaked, "output_head": (ev["stdout"] + ev["stderr"])[:300]})
            # (2b) the same under `ucg test`: strict fails the file, --no-strict sees NULL
            if r.random() < 0.4:
                ttext = ctx % {"x": xsel} + "assert {ok = (v == NULL) || (v == \"NULL\"), desc = \"unset is NULL\"};\n"
                tp.write("u_test.ucg", ttext)
                wt = dict(witness, text=ttext, missing=missing, context=ctx_name, subcommand="test")
                for argv, want in ((["--no-strict"], 0), ([], 1)):
                    ev = core.run_cli(argv + ["test", "u_test.ucg"], tp.root, env=dict(env), timeout=30.0, home=tp.path("home"))
                    res.case((json.dumps(env, sort_keys=True), "unset-test", missing, tuple(argv)), nontrivial=True)
                    if ev["exit"] not in (0, 1):
                        res.count("crash-left-to-C04")
                    elif ev["exit"] != want:
                        res.violation(["unset-variable-under-ucg-test", "non-strict-fails" if want == 0 else "strict-passes", ctx_name], wt,
                                      {"exit": ev["exit"], "output": (ev["stdout"] + ev["stderr"])[-300:]})
                    else:
                        res.count("unset-under-ucg-test-ok")
                os.remove(tp.path("u_test.ucg"))
            # (3) shadowing
            name = names[0] if names else None
            shadow_progs = [
                ("let-env", "let env = {A = 1};\nout json {v = 1};\n", False, None),
                ("let-env-in-module", "let m = module {} => { let env = 1; };\nlet r = m{};\nout json {v = 1};\n", False, None),
                ("tuple-field-env", "let t = {env = 5, other = 6};\nout json {v = t.env, w = {env = 7}.env};\n", True, {"v": 5, "w": 7}),
                ("nested-field-env", "let t = {a = {env = \"inner\"}};\nout json {v = t.a.env};\n", True, {"v": "inner"}),
                ("func-param-env", "let f = func (env) => env;\nout json {v = f(1)};\n", False, None),
            ]
            if name is not None:
                shadow_progs += [
                    ("env-in-function", "let f = func () => %s;\nout json {v = f()};\n" % sel(name), True, {"v": env[name]}),
                    ("env-in-module", "let m = module {} => (%s) { let unused = 1; };\nout json {v = m{}};\n" % sel(name), True, {"v": env[name]}),
                    ("env-field-vs-env", "let t = {env = {%s = \"shadow\"}};\nout json {v = %s, w = t.%s};\n" % (gen.quote(name), sel(name), sel(name)),
                     True, {"v": env[name], "w": "shadow"}),
                ]
            label, text3, should_build, expect = r.choice(shadow_progs)
            res.case((json.dumps(env, sort_keys=True), label), nontrivial=True)
            ev, data = build(tp, env, [], text3)
            w3 = dict(witness, text=text3)
            if ev.get("hang") or ev["signal"] or ev["exit"] not in (0, 1):
                res.count("crash-left-to-C04")
            elif should_build:
                try:
                    doc = json.loads(data.decode("utf-8")) if data is not None else None
                except ValueError:
                    doc = None
                if ev["exit"] != 0 or doc is None:
                    res.violation(["env-program-fails", label], w3, {"stderr": ev["stderr"][-300:]})
                elif any(doc.get(k) != v for k, v in expect.items()):
                    res.violation(["env-program-wrong-value", label], w3, {"expected": expect, "got": doc})
                else:
                    res.count("shadow-ok:" + label)
            else:
                if ev["exit"] == 0:
                    res.violation(["env-shadowed", label], w3, {"artifact": (data or b"").decode("utf-8", "replace")[:100]})
                else:
                    res.count("shadow-rejected:" + label)
        if c < 1 and idx < 2:
            res.sample({"env_names": sorted(env), "program": text[:300]})
    return res


def run(tier, seed, t0):
    q = tier == "quick"
    n = 640 if q else 12000
    sh = 32 if q else 64
    tasks = [(seed, i, n // sh) for i in range(sh)]
    res = core.run_parallel(task, tasks)
    return core.finish("C18", tier, seed, res, RULE, t0, replay_known=replay_known,
                       assumptions=["the process environment is exactly what the harness passes (plus HOME and PATH)",
                                    "a secret is disclosed if its 32-hex-digit value occurs anywhere in stdout or stderr"])


def check_witness(w):
    res = core.Result()
    env = dict(w["env"])
    if w.get("exact_environment"):
        judge_tiny_env(None, res, fixed=(env, w.get("context")))
        return res
    with core.TempProject("c18r") as tp:
        os.makedirs(tp.path("home"), exist_ok=True)
        by = w.get("bystander_hex")
        ev, data = build(tp, env, w.get("argv", []), w["text"], (by[0].encode("ascii"), bytes.fromhex(by[1])) if by else None)
        outtxt = ev["stdout"] + ev["stderr"]
        if ev.get("hang") or ev["signal"] or ev["exit"] not in (0, 1):
            res.violation(["reading-set-variables-crashes"], w, {"exit": ev["exit"]})
        elif w.get("missing"):
            leaked = [k for k, v in env.items() if len(v) >= 12 and v in outtxt]
            if ev["exit"] == 0:
                res.violation(["unset-variable-builds-in-strict-mode"], w, {})
            elif leaked:
                res.violation(["diagnostic-discloses-other-variables"], w, {"leaked": leaked})
            elif w["missing"] not in outtxt:
                res.violation(["diagnostic-does-not-name-the-variable"], w, {})
        elif w.get("expect_fail"):
            if ev["exit"] == 0:
                res.violation(["env-shadowed"], w, {})
    return res


def replay_known(entry):
    w = entry.get("witness", {})
    if "env" not in w:
        return None
    return bool(check_witness(w).violations)


def replay(path, tier, seed):
    d = json.load(open(path))
    w = d["witness"]
    if d["signature"][0] == "env-shadowed":
        w = dict(w, expect_fail=True)
    res = check_witness(w)
    if res.violations:
        print("VIOLATION property=C18 replay=%s" % path)
        print(json.dumps(res.violations[0], indent=1)[:1500])
        return 1
    print("replay: no violation")
    return 0
