"""C20 - the language server survives any session and answers from the current text only."""
import json, re
import os
import shutil

from .. import core, gen, hostile, lsp, progs

RULE = ("random sessions of 1..30 messages over 1..3 documents with the real `ucg lsp` over stdio: didOpen / didChange "
        "(full text) / didClose and hover, definition, completion, semanticTokens/full and workspace/symbol requests; "
        "texts = generated programs (also importing an on-disk library), token-mutated programs, token soup and "
        "arbitrary UTF-8 incl. non-ASCII and CRLF; positions at token starts, inside tokens, at line ends, beyond the "
        "last line/column and up to 2^31-1. Offline checkers over the recorded message history: (1) every request has "
        "a response, the process lives until `exit` and exits 0; (2) every range in every response/notification lies "
        "inside the document it names (line < number of lines (+1), character <= the line's length in the larger of "
        "bytes and UTF-16 units (+1)); (3) the final diagnostics of every open document equal those of a FRESH server "
        "on the same on-disk workspace opened directly on the final text; (4) the compiler's parser (probe) rejects the "
        "text <=> there is exactly one diagnostic and it starts at (line-1, column-1) of the parser's error; (5) a "
        "final text that `ucg build` builds in a copy of the workspace has no diagnostics. distinct = distinct "
        "sessions; non-trivial = >= 3 messages incl. a change.")
RULE += (" " + 'Also: the on-disk library is opened / edited (also into unparsable text) / closed during sessions and exists in 8 variants on disk; documents import other session documents that exist only in the editor (closed before the final comparison, importers touched); 30 % of the sessions sweep every character position of one document with completion / hover / definition.')
RULE += (" " + 'The library has a ninth variant with its bindings 12 lines down and 60-90 columns to the right; documents use fields of imported tuples through further bindings; 8 % of the texts have multi-byte characters before a fault on the same line; 30 % of the positions sit on the name after a dot; positions include 2^31, 2^32-2, 2^32-1. An out-of-document definition range is classed as the known finding only when the target changed after the requester was last analysed and the range fits the text the target had then.')
RULE += (" " + 'Every library variant has nested tuples far to the right; 8 % of the texts walk library tuples through local bindings, lists, tuples, copies and the result of an imported function; a *_test.ucg file on disk is opened / edited / closed like the library and imported by documents.')
RULE += (" " + 'A file outside the workspace root (`../outside.ucg`) is opened / edited / closed like the library and imported by documents.')
RULE += (" " + '6 % of the texts are lines with escaped strings (\\n, \\t, \\", \\\\) that do not start in column 0 and are followed by more tokens on the same line.')

LIB = ("let traceid = 1;\nlet val = 7;\nlet mk = func (x) => {v = x, s = \"s\"};\nlet cfg = {host = \"h\", port = 80};\n"
       # nested tuples written far to the right: a position in here is outside the short lines of the documents
       "let deep = {filler = \"................\", inner = {pad = \"........\", leaf = 1, other = {x = 2}}};\n")


LIBNAME = "lib/shared.ucg"
# a test file on disk: start-up indexing leaves *_test.ucg files out, the editor can still open and close them
TESTNAME = "helper_test.ucg"
TEST_TEXT = "let in_test_file = 1;\nlet tcfg = {n = 1};\n"
# a file OUTSIDE the workspace root (start-up indexing never sees it), imported by documents as "../outside.ucg"
OUTNAME = "../outside.ucg"
OUT_TEXT = "let outer_n = 1;\nlet ocfg = {n = 1};\n"
OUT_VARIANTS = [OUT_TEXT, OUT_TEXT.replace("= 1;", "= \"one\";", 1), "let outer_n = ;\n"]
OVERLAYS = None
TEST_VARIANTS = [TEST_TEXT, TEST_TEXT.replace("= 1;", "= \"one\";", 1), "let in_test_file = ;\n", TEST_TEXT + "assert {ok = true, desc = \"d\"};\n"]
LIB_VARIANTS = [LIB, LIB.replace("let val = 7;", "let val = \"seven\";"), LIB.replace("port = 80", "prt = 80"), "let val = ;\n", "",
                LIB.replace("let mk = func (x)", "let mk = func (x, y)"), LIB + "let extra = 1;\n", "let traceid = 1;\nlet val = 7;\n",
                # the same bindings far down and far to the right: a position of this file is outside most documents that import it
                "\n" * 12 + LIB.replace("let cfg = {host = \"h\", port = 80};", "let cfg = {\n" + " " * 60 + "host = \"h\",\n" + " " * 70 + "port = 80,\n};")]


NON_ASCII = ["é", "éé", "ñandú", "日本語テキスト", "😀😀😀", "αβγδ", "ü", "中", "\u00a0\u00a0", "x\u0301y\u0301", "𝔘𝔫𝔦"]


def nonascii_before_fault(r):
    """one fault (most of them syntax faults) with multi-byte characters before it on the same line: byte column,
    character column and UTF-16 column of the fault all differ"""
    na = "".join(r.choice(NON_ASCII) for _ in range(r.randint(1, 4)))
    nb = r.choice(NON_ASCII)
    nl = r.choice(["\n", "\r\n"])
    lead = r.choice(["", "let a = 1;" + nl, "// " + nb + nl, "let a = \"" + nb + "\";" + nl + nl])
    line = r.choice([
        'let s = "%s" 1;' % na,
        'let s = "%s" 1' % na,
        'let s = "%s" +;' % na,
        'let t = {k = "%s", m = };' % na,
        'let t = {"%s" = 1, m = };' % na,
        'let u = ["%s", "%s" "x"];' % (na, nb),
        'let s = "%s"; let b = ;' % na,
        'let s = "%s"; // %s' % (na, nb) + nl + 'let c = "%s" "%s";' % (nb, na),
        'let f = func (x) => "%s" %% ;' % na,
        'let s = "%s" + 1;' % na,
        'let s = "%s"; let n = s + 1;' % na,
        'let s = {k = "%s"}; let n = s.k.zz;' % na,
        'assert {ok = "%s" == 1, desc = "%s"};' % (na, nb),
    ])
    tail = r.choice(["", nl, nl + "let z = 2;" + nl])
    return lead + line + tail


def import_binding_text(r):
    """fields of the on-disk library reached through bindings of the importing document, at every depth and through
    a function result: what the server answers about them comes from the library's shapes"""
    lines = ["let lib = import \"lib/shared.ucg\";"]
    pool = ["let t = lib.cfg;", "let h = t.host;", "let p = t.port + 1;", "let d = lib.deep;", "let i = d.inner;", "let l = i.leaf;",
            "let q = d.inner.leaf;", "let g = lib.mk;", "let o = g(1);", "let ov = o.v;", "let os = o.s;", "let whole = lib;", "let wc = whole.cfg.port;",
            "let wd = whole.deep.inner.leaf;", "let lst = [lib.cfg, lib.deep];", "let e0 = lst.0;", "let tt = {c = lib.cfg, d = lib.deep};", "let th = tt.c.host;",
            "let tl = tt.d.inner.leaf;", "let cp = lib.cfg{extra = 1};", "let ch = cp.host;"]
    # keep definition order (a binding is used after it is made), drop a few at random
    for x in pool:
        if r.random() < 0.8:
            lines.append(x)
    return "\n".join(lines) + "\n"


def escapes_before_tokens(r):
    """single-line strings with escapes (their unescaped text has line breaks, tabs, quotes) that do not start in column 0
    and are followed by more tokens on the same line"""
    e = r.choice(["x\\n", "a\\nb\\nc", "\\n", "t\\tt", "q\\\"q", "b\\\\b", "r\\r\\n", "\u00e9\\n\u00e9"])
    lines = ['let a = "%s" + "tail";' % e, 'let t = {a = "%s", b = 1, c = "%s"};' % (e, e), 'let f = "%s" %% (1) + "z";' % e.replace("@", ""),
             '    let l = ["%s", 2, "%s", 3];' % (e, e), 'let s = select ("%s", 0) => {a = 1};' % e, 'let z = 1;']
    r.shuffle(lines)
    return "\n".join(lines[:r.randint(2, 6)]) + "\n"


def rand_text(r, probe):
    if r.random() < 0.08:
        return nonascii_before_fault(r)
    if r.random() < 0.06:
        return escapes_before_tokens(r)
    if r.random() < 0.05:
        return r.choice(["let o = import \"../outside.ucg\";\nlet y = o.outer_n + \"s\";\nlet z = o.ocfg.n;\nlet bad = o.nope;\n",
                         "let o = import \"../outside.ucg\";\nlet y = o.outer_n + 1;\n",
                         "let h = import \"helper_test.ucg\";\nlet x = h.in_test_file + \"s\";\n", "let h = import \"helper_test.ucg\";\nlet y = h.in_test_file + 1;\nlet z = h.tcfg.n;\n",
                         "let h = import \"helper_test.ucg\";\nlet lib = import \"lib/shared.ucg\";\nlet w = h.tcfg.n + lib.val;\nlet bad = h.nope;\n"])
    if r.random() < 0.08:
        return import_binding_text(r)
    x = r.random()
    if x < 0.35:
        stmts, _ = progs.gen_program(r, depth=3, nstmts=5, p_bad=r.choice([0, 0, 0.05]))
        pr = gen.Printer()
        pr.program(stmts)
        if r.random() < 0.5:
            return gen.join_stmts(pr.toks)
        text, _, _, _ = gen.layout_text(r, pr.toks, newline=r.choice(["\n", "\r\n"]), p_comment=0.1)
        return text
    if x < 0.42:
        # imports another document of the session, which exists only in the editor, never on disk
        return "let o = import \"doc%d.ucg\";\nlet z = o.v + 1;\nlet q = o.nope;\n" % r.randint(0, 2)
    if x < 0.5:
        if r.random() < 0.5:
            # bindings taken from the import and used through further bindings
            return ("let lib = import \"lib/shared.ucg\";\nlet t = lib.cfg;\nlet h = t.host;\nlet p = t.port + %d;\n"
                    "let d = lib.deep;\nlet i = d.inner;\nlet l = i.leaf;\nlet m = lib.mk(1);\nlet w = m.v;\n" % r.randint(0, 9))
        return "let lib = import \"lib/shared.ucg\";\nlet v = lib.val + %d;\nlet c = lib.cfg.port;\nlet t = lib.mk(\"é\");\n" % r.randint(0, 9)
    if x < 0.7:
        stmts, _ = progs.gen_program(r, depth=3, nstmts=4, p_bad=0.0)
        pr = gen.Printer()
        pr.program(stmts)
        toks = [t + " " for t in pr.toks if not isinstance(t, tuple)]
        t, _ = hostile.mutate(r, toks)
        return t
    if x < 0.85:
        return hostile.token_soup(r, maxlen=r.choice([5, 20, 60]))
    if x < 0.95:
        return hostile.rand_unicode(r, r.randint(0, 80)).replace("\x00", "")
    return r.choice(["", "\n", "let x = \"é\" + \"日本\";\r\nlet y = x;\r\n", "// only a comment", "let a = 1;\n\n\n", "﻿let a = 1;"])


def positions_for(r, text):
    lines = text.split("\n")
    out = []
    dots = [(li, m.end()) for li, l in enumerate(lines) for m in re.finditer(r"\.", l)]
    for _ in range(3):
        x = r.random()
        if dots and r.random() < 0.3:
            # on the name that follows a dot
            out.append(r.choice(dots))
        elif x < 0.5 and lines:
            li = r.randrange(len(lines))
            out.append((li, r.randint(0, max(0, len(lines[li])))))
        elif x < 0.7 and lines:
            li = r.randrange(len(lines))
            out.append((li, len(lines[li])))
        elif x < 0.85:
            out.append((len(lines) + r.randint(0, 3), r.randint(0, 5)))
        elif x < 0.95:
            out.append((r.randint(0, max(0, len(lines) - 1)), 10 ** r.randint(2, 6)))
        else:
            # the largest values the protocol's and the wire format's unsigned integers can take
            big = r.choice([2 ** 31 - 1, 2 ** 32 - 1, 2 ** 32 - 2, 2 ** 31])
            out.append(r.choice([(big, big), (big, 0), (0, big), (r.randint(0, max(0, len(lines) - 1)), big)]))
    return out


def line_limits(text):
    """per line: max admissible character index (larger of bytes and UTF-16 units, +1)"""
    lims = []
    for l in text.split("\n"):
        l2 = l[:-1] if l.endswith("\r") else l
        b = len(l.encode("utf-8", "surrogatepass"))
        u = len(l.encode("utf-16-le", "surrogatepass")) // 2
        lims.append(max(b, u) + 1)
    return lims


def range_ok(rng, text):
    lims = line_limits(text)
    nl = len(lims)
    for k in ("start", "end"):
        p = rng.get(k, {})
        line, ch = p.get("line"), p.get("character")
        if not isinstance(line, int) or not isinstance(ch, int) or line < 0 or ch < 0:
            return False
        if line > nl:
            return False
        if line == nl:
            if ch > 1:
                return False
        elif ch > lims[line] + 0:
            return False
    s, e = rng["start"], rng["end"]
    if (s["line"], s["character"]) > (e["line"], e["character"]):
        return False
    return True


def uri_of(root, name):
    return "file://" + os.path.normpath(os.path.join(root, name))


def text_for_uri(uri, docs, root):
    if uri in docs and docs[uri] is not None:
        return docs[uri]
    if uri.startswith("file://"):
        p = uri[len("file://"):]
        try:
            return open(p, encoding="utf-8").read()
        except (OSError, UnicodeDecodeError):
            return None
    return None


class Docs(dict):
    """uri -> current editor text (None = closed).  Remembers a logical time for every open / change / close, when each
    document was last analysed by the server (its own last open or change) and every text it had."""

    def __init__(self):
        super().__init__()
        self.clock = 0
        self.analysed = {}
        self.versions = {}

    def __setitem__(self, uri, text):
        self.clock += 1
        if text is not None:
            self.analysed[uri] = self.clock
        self.versions.setdefault(uri, []).append((self.clock, text))
        super().__setitem__(uri, text)

    def changed_since_analysed(self, requester, target):
        t0 = self.analysed.get(requester, 0)
        return any(clk > t0 for clk, _ in self.versions.get(target, []))

    def text_seen_by(self, requester, target, root):
        """the text of `target` that was current when `requester` was last analysed (the file on disk if it was not open)"""
        t0 = self.analysed.get(requester, 0)
        cur = None
        for clk, text in self.versions.get(target, []):
            if clk <= t0:
                cur = text
        if cur is None:
            try:
                return open(target[len("file://"):], encoding="utf-8").read()
            except (OSError, UnicodeDecodeError):
                return None
        return cur


def check_ranges(resp_kind, payload, uri, docs, root, res, witness):
    """walk a response / notification payload and check every range against the document it belongs to"""
    def bad(rng, u, where):
        res.violation(["range-outside-document", where], witness, {"range": rng, "uri": os.path.basename(u or "?"), "text_head": (text_for_uri(u, docs, root) or "")[:200]})

    if payload is None:
        return
    if resp_kind == "diagnostics":
        t = text_for_uri(uri, docs, root)
        for d in payload:
            if t is not None and not range_ok(d.get("range", {}), t):
                bad(d.get("range"), uri, "diagnostic")
    elif resp_kind == "hover":
        if isinstance(payload, dict) and payload.get("range") is not None:
            t = text_for_uri(uri, docs, root)
            if t is not None and not range_ok(payload["range"], t):
                bad(payload["range"], uri, "hover")
    elif resp_kind == "definition":
        locs = payload if isinstance(payload, list) else [payload]
        for loc in locs:
            if not isinstance(loc, dict) or "uri" not in loc:
                continue
            t = text_for_uri(loc["uri"], docs, root)
            if t is None:
                # a location in a file that exists nowhere: fine when the requesting text itself names that file in an import
                # (the answer is derived from the current text), stale otherwise
                cur = text_for_uri(uri, docs, root) or ""
                if loc["uri"].startswith("file://") and not os.path.exists(loc["uri"][7:]) and os.path.basename(loc["uri"]) not in cur:
                    res.violation(["definition-points-to-missing-file"], witness, {"location": loc})
                continue
            if not range_ok(loc.get("range", {}), t):
                if isinstance(docs, Docs) and loc["uri"] != uri and docs.changed_since_analysed(uri, loc["uri"]):
                    # the requesting document was analysed before the target got its current text: is the answer
                    # right for the text the target had then?
                    old = docs.text_seen_by(uri, loc["uri"], root)
                    if old is not None and range_ok(loc.get("range", {}), old):
                        res.violation(["range-outside-document", "definition", "right-for-the-target-text-the-requesting-document-was-analysed-with"], witness,
                                      {"range": loc.get("range"), "uri": os.path.basename(loc["uri"]), "text_head": t[:200], "older_text_head": old[:200]})
                        continue
                bad(loc.get("range"), loc["uri"], "definition")
    elif resp_kind == "symbols":
        for s in payload or []:
            loc = s.get("location", {})
            t = text_for_uri(loc.get("uri", ""), docs, root)
            if t is not None and "range" in loc and not range_ok(loc["range"], t):
                bad(loc["range"], loc.get("uri"), "workspace-symbol")
    elif resp_kind == "tokens":
        data = (payload or {}).get("data", [])
        t = text_for_uri(uri, docs, root)
        if t is None:
            return
        lims = line_limits(t)
        line = ch = 0
        if len(data) % 5 != 0:
            res.violation(["semantic-tokens-malformed"], witness, {"len": len(data)})
            return
        for i in range(0, len(data), 5):
            dl, dc, ln = data[i], data[i + 1], data[i + 2]
            line += dl
            ch = ch + dc if dl == 0 else dc
            if line >= len(lims) or ch + ln > lims[line]:
                bad({"line": line, "character": ch, "length": ln}, uri, "semantic-token")
                return


def run_session(r, probe, res, sid):
    tp = core.TempProject("c20")
    try:
        root = tp.path("ws")
        os.makedirs(os.path.join(root, "lib"))
        os.makedirs(tp.path("home"))
        open(os.path.join(root, "lib", "shared.ucg"), "w").write(LIB)
        open(os.path.join(root, "ondisk.ucg"), "w").write("let disk = 1;\nlet other = {a = disk};\n")
        open(os.path.join(root, TESTNAME), "w").write(TEST_TEXT)
        open(os.path.normpath(os.path.join(root, OUTNAME)), "w").write(OUT_TEXT)
        names = ["doc%d.ucg" % i for i in range(r.randint(1, 3))]
        script = []
        if r.random() < 0.3:
            # the library on disk is itself one of the variants (also an unparsable one)
            disk_lib = r.choice(LIB_VARIANTS)
            open(os.path.join(root, "lib", "shared.ucg"), "w").write(disk_lib)
            script.append(["disk", LIBNAME, disk_lib])
        client = lsp.LspClient(root, tp.path("home"))
        docs = Docs()        # uri -> current text or None when closed
        witness = {"script": script}
        st, resp = client.initialize(root)
        if st != "ok":
            res.violation(["initialize-" + st], witness, {"stderr": client.stderr_text()[-300:]})
            client.kill()
            return
        nmsg = r.randint(1, 30)
        failed = False
        for k in range(nmsg):
            if r.random() < 0.12:
                # the on-disk library the documents import is opened / edited (also into a broken text) / closed in the editor
                oname, variants = (LIBNAME, LIB_VARIANTS) if r.random() < 0.6 else r.choice([(TESTNAME, TEST_VARIANTS), (OUTNAME, OUT_VARIANTS)])
                uri = uri_of(root, oname)
                if docs.get(uri) is None:
                    text = r.choice(variants)
                    script.append(["didOpen", oname, text])
                    client.notify("textDocument/didOpen", {"textDocument": {"uri": uri, "languageId": "ucg", "version": 1, "text": text}})
                    docs[uri] = text
                elif r.random() < 0.6:
                    text = r.choice(variants)
                    script.append(["didChange", oname, text])
                    client.notify("textDocument/didChange", {"textDocument": {"uri": uri, "version": k + 2}, "contentChanges": [{"text": text}]})
                    docs[uri] = text
                else:
                    script.append(["didClose", oname])
                    client.notify("textDocument/didClose", {"textDocument": {"uri": uri}})
                    docs[uri] = None
                res.count("library-edit-events")
                continue
            name = r.choice(names)
            uri = uri_of(root, name)
            op = r.random()
            if docs.get(uri) is None or op < 0.12:
                text = rand_text(r, probe)
                if docs.get(uri) is None:
                    script.append(["didOpen", name, text])
                    client.notify("textDocument/didOpen", {"textDocument": {"uri": uri, "languageId": "ucg", "version": 1, "text": text}})
                else:
                    script.append(["didChange", name, text])
                    client.notify("textDocument/didChange", {"textDocument": {"uri": uri, "version": k + 2}, "contentChanges": [{"text": text}]})
                docs[uri] = text
                continue
            if op < 0.3:
                text = rand_text(r, probe)
                script.append(["didChange", name, text])
                client.notify("textDocument/didChange", {"textDocument": {"uri": uri, "version": k + 2}, "contentChanges": [{"text": text}]})
                docs[uri] = text
                continue
            if op < 0.36:
                script.append(["didClose", name])
                client.notify("textDocument/didClose", {"textDocument": {"uri": uri}})
                docs[uri] = None
                continue
            text = docs[uri]
            line, ch = r.choice(positions_for(r, text))
            kind = r.choice(["hover", "definition", "completion", "tokens", "symbols"])
            method, params = {
                "hover": ("textDocument/hover", {"textDocument": {"uri": uri}, "position": {"line": line, "character": ch}}),
                "definition": ("textDocument/definition", {"textDocument": {"uri": uri}, "position": {"line": line, "character": ch}}),
                "completion": ("textDocument/completion", {"textDocument": {"uri": uri}, "position": {"line": line, "character": ch}}),
                "tokens": ("textDocument/semanticTokens/full", {"textDocument": {"uri": uri}}),
                "symbols": ("workspace/symbol", {"query": r.choice(["", "v", "disk", "x", "é"])}),
            }[kind]
            script.append([kind, name, line, ch])
            st, resp = client.request(method, params, timeout=10.0)
            res.count("request:" + kind)
            if st != "ok":
                res.violation(["request-without-response", kind, st], witness, {"stderr": client.stderr_text()[-400:], "text": text[:300]})
                failed = True
                break
            if "error" in resp:
                res.violation(["request-answered-with-error", kind], witness, {"error": resp["error"]})
                failed = True
                break
            check_ranges(kind, resp.get("result"), uri, docs, root, res, witness)
        if not failed and r.random() < 0.3:
            # sweep: every character position of the lines of one open document (bounded), completion / hover / definition in turn.
            # Positions that fall inside multi-byte characters (in either unit) only turn up this way.
            open_docs = [(u, t) for u, t in docs.items() if t is not None and u not in (uri_of(root, LIBNAME), uri_of(root, TESTNAME), uri_of(root, OUTNAME))]
            if open_docs:
                suri, stext = r.choice(open_docs)
                sname = os.path.relpath(suri[7:], root)
                budget = 150
                lines_ = stext.split("\n")
                order_ = sorted(range(len(lines_)), key=lambda i: (not any(ord(c) > 127 for c in lines_[i]), i))
                for li in order_:
                    for ch in range(0, min(len(lines_[li].encode("utf-8")) + 2, 60)):
                        if budget <= 0 or failed:
                            break
                        budget -= 1
                        kind = ("completion", "hover", "definition")[(li + ch) % 3]
                        method = {"hover": "textDocument/hover", "definition": "textDocument/definition", "completion": "textDocument/completion"}[kind]
                        script.append([kind, sname, li, ch])
                        st, resp = client.request(method, {"textDocument": {"uri": suri}, "position": {"line": li, "character": ch}}, timeout=10.0)
                        res.count("request:" + kind)
                        if st != "ok":
                            res.violation(["request-without-response", kind, st], witness, {"stderr": client.stderr_text()[-400:], "text": stext[:300]})
                            failed = True
                            break
                        if "error" in resp:
                            res.violation(["request-answered-with-error", kind], witness, {"error": resp["error"]})
                            failed = True
                            break
                        check_ranges(kind, resp.get("result"), suri, docs, root, res, witness)
                res.count("sessions-with-position-sweep")
        if not failed:
            # a session document that another open document imports is closed before the final comparison (it was never
            # saved, so nothing of it may remain), and its importers are touched so that their diagnostics are recomputed
            imported = [u for u, t in docs.items() if t is not None and any(
                t2 is not None and u2 != u and ("import \"%s\"" % os.path.basename(u[7:])) in t2 for u2, t2 in docs.items())]
            for u in imported:
                script.append(["didClose", os.path.relpath(u[7:], root)])
                client.notify("textDocument/didClose", {"textDocument": {"uri": u}})
                docs[u] = None
            if imported or any(sc[0] == "didClose" for sc in script):
                for u, t in list(docs.items()):
                    if t is not None and "import \"doc" in t:
                        docs[u] = t
                        script.append(["didChange", os.path.relpath(u[7:], root), t])
                        client.notify("textDocument/didChange", {"textDocument": {"uri": u, "version": 999}, "contentChanges": [{"text": t}]})
                res.count("sessions-with-session-document-imports")
        if not failed and any(sc[1] in (LIBNAME, TESTNAME, OUTNAME) for sc in script):
            # the editor overlay of the library goes away: from here on only the disk counts again.  Every open document
            # is then touched (same text, new version) so that its diagnostics are recomputed after the close.
            for oname in (LIBNAME, TESTNAME, OUTNAME):
                luri = uri_of(root, oname)
                if docs.get(luri) is not None:
                    script.append(["didClose", oname])
                    client.notify("textDocument/didClose", {"textDocument": {"uri": luri}})
                    docs[luri] = None
            for uri, text in list(docs.items()):
                if text is not None:
                    docs[uri] = text
                    script.append(["didChange", os.path.relpath(uri[7:], root), text])
                    client.notify("textDocument/didChange", {"textDocument": {"uri": uri, "version": 1000}, "contentChanges": [{"text": text}]})
            res.count("sessions-with-library-edits")
        if not failed:
            # synchronise: a request answered means all earlier notifications have been handled
            st, resp = client.request("workspace/symbol", {"query": ""}, timeout=10.0)
            if st != "ok":
                res.violation(["request-without-response", "sync", st], witness, {"stderr": client.stderr_text()[-400:]})
                failed = True
        final_diags = lsp.latest_diagnostics(client.notifications)
        for n in client.notifications:
            if n.get("method") == "textDocument/publishDiagnostics":
                # ranges of every publication are checked against the text current at the END only for the last one
                pass
        if not failed:
            for uri, text in docs.items():
                if text is None:
                    continue
                ds = final_diags.get(uri)
                if ds is None:
                    res.violation(["no-diagnostics-published-for-open-document"], witness, {"uri": os.path.basename(uri)})
                    continue
                check_ranges("diagnostics", ds, uri, docs, root, res, witness)
                # (4) parser agreement
                pr = probe.safe_call({"op": "parse", "text": text})
                if "ok" in pr:
                    if not pr["ok"]:
                        pos = pr.get("pos")
                        if len(ds) != 1:
                            res.violation(["syntax-error-diagnostic-count", str(len(ds))], witness, {"text": text[:300], "diagnostics": ds[:3], "parser": pr.get("err", "")[:200]})
                        elif pos and (ds[0]["range"]["start"]["line"], ds[0]["range"]["start"]["character"]) != (max(0, pos[0] - 1), max(0, pos[1] - 1)):
                            res.violation(["syntax-diagnostic-position"], witness, {"text": text[:300], "diagnostic": ds[0]["range"], "parser_pos": pos})
                        else:
                            res.count("syntax-diagnostic-agrees")
                    else:
                        if any("ParseError" in d.get("message", "") or "Expected" in d.get("message", "")[:10] and False for d in ds):
                            res.violation(["spurious-syntax-diagnostic"], witness, {"text": text[:300], "diagnostics": ds[:3]})
                        # (5) builds => no diagnostics
                        with core.TempProject("c20b") as bp:
                            shutil.copytree(root, bp.path("ws"))
                            p = os.path.join(bp.path("ws"), os.path.basename(uri[7:]))
                            with open(p, "w", encoding="utf-8", newline="") as f:
                                f.write(text)
                            ev = core.run_cli(["build", os.path.basename(p)], bp.path("ws"), timeout=20.0)
                            if ev["exit"] == 0 and ds:
                                msg = ds[0].get("message", "")
                                import re
                                res.violation(["diagnostic-on-text-that-builds", re.sub(r"[0-9]+", "N", re.sub(r"'[^']*'", "'_'", msg))[:50]], witness,
                                              {"text": text[:400], "diagnostics": [d.get("message") for d in ds[:3]]})
                            elif ev["exit"] == 0:
                                res.count("builds-and-no-diagnostics")
            # (1) clean shutdown
            st, rc = client.shutdown()
            if st != "ok" or rc != 0:
                res.violation(["unclean-shutdown", st, str(rc)], witness, {"stderr": client.stderr_text()[-300:]})
            else:
                res.count("clean-shutdowns")
            # (3) fresh server on the final texts
            fresh = lsp.LspClient(root, tp.path("home"))
            st, _ = fresh.initialize(root)
            if st == "ok":
                for uri, text in docs.items():
                    if text is None:
                        continue
                    fresh.notify("textDocument/didOpen", {"textDocument": {"uri": uri, "languageId": "ucg", "version": 1, "text": text}})
                    st2, _ = fresh.request("workspace/symbol", {"query": ""}, timeout=10.0)
                    if st2 != "ok":
                        break
                    fd = lsp.latest_diagnostics(fresh.notifications).get(uri, [])
                    a = sorted(map(lsp.diag_key, final_diags.get(uri, [])), key=repr)
                    b = sorted(map(lsp.diag_key, fd), key=repr)
                    if a != b:
                        res.violation(["session-diagnostics-differ-from-fresh-server"], witness,
                                      {"uri": os.path.basename(uri), "session": a[:4], "fresh": b[:4], "text": text[:300]})
                    else:
                        res.count("session-equals-fresh")
                fresh.shutdown()
            fresh.kill()
        client.kill()
        res.case(json.dumps(script), nontrivial=(len(script) >= 3 and any(s[0] == "didChange" for s in script)))
        res.count("sessions")
        res.count("messages", len(script))
        if sid < 1:
            res.sample({"script": [s if len(json.dumps(s)) < 200 else [s[0], s[1], "<%d chars>" % len(s[2])] for s in script[:8]]})
    finally:
        tp.cleanup()


def task(args):
    seed, idx, count = args
    r = core.rng_for(seed, "c20", idx)
    res = core.Result()
    probe = core.Probe()
    try:
        for c in range(count):
            run_session(r, probe, res, c if idx == 0 else 99)
    finally:
        probe.stop()
    return res


def run(tier, seed, t0):
    q = tier == "quick"
    n = 1280 if q else 12000
    sh = 32 if q else 64
    tasks = [(seed, i, max(1, n // sh)) for i in range(sh)]
    res = core.run_parallel(task, tasks)
    return core.finish("C20", tier, seed, res, RULE, t0, replay_known=replay_known,
                       assumptions=["open documents never import another open-and-modified document (an editor overlay legitimately differs from disk)",
                                    "the lax character bound (larger of bytes and UTF-16 units, +1) keeps the range check inside what the LSP specification tolerates",
                                    "unknown request methods and malformed params are not sent"])


def replay_script(script):
    """re-run a stored session script deterministically"""
    res = core.Result()
    probe = core.Probe()
    tp = core.TempProject("c20r")
    try:
        root = tp.path("ws")
        os.makedirs(os.path.join(root, "lib"))
        os.makedirs(tp.path("home"))
        open(os.path.join(root, "lib", "shared.ucg"), "w").write(LIB)
        open(os.path.join(root, "ondisk.ucg"), "w").write("let disk = 1;\nlet other = {a = disk};\n")
        open(os.path.join(root, TESTNAME), "w").write(TEST_TEXT)
        open(os.path.normpath(os.path.join(root, OUTNAME)), "w").write(OUT_TEXT)
        for s in script:
            if s[0] == "disk":
                open(os.path.join(root, s[1]), "w").write(s[2])
        client = lsp.LspClient(root, tp.path("home"))
        docs = Docs()
        witness = {"script": script}
        st, _ = client.initialize(root)
        if st != "ok":
            res.violation(["initialize-" + st], witness, {})
            return res
        for s in script:
            kind, name = s[0], s[1]
            uri = uri_of(root, name)
            if kind == "disk":
                continue
            if kind == "didOpen":
                client.notify("textDocument/didOpen", {"textDocument": {"uri": uri, "languageId": "ucg", "version": 1, "text": s[2]}})
                docs[uri] = s[2]
            elif kind == "didChange":
                client.notify("textDocument/didChange", {"textDocument": {"uri": uri, "version": 2}, "contentChanges": [{"text": s[2]}]})
                docs[uri] = s[2]
            elif kind == "didClose":
                client.notify("textDocument/didClose", {"textDocument": {"uri": uri}})
                docs[uri] = None
            else:
                method = {"hover": "textDocument/hover", "definition": "textDocument/definition", "completion": "textDocument/completion",
                          "tokens": "textDocument/semanticTokens/full", "symbols": "workspace/symbol"}[kind]
                params = {"textDocument": {"uri": uri}, "position": {"line": s[2], "character": s[3]}}
                if kind == "tokens":
                    params = {"textDocument": {"uri": uri}}
                if kind == "symbols":
                    params = {"query": ""}
                st, resp = client.request(method, params)
                if st != "ok":
                    res.violation(["request-without-response", kind, st], witness, {"stderr": client.stderr_text()[-300:]})
                    client.kill()
                    return res
                check_ranges(kind, resp.get("result"), uri, docs, root, res, witness)
        st, _ = client.request("workspace/symbol", {"query": ""})
        if st != "ok":
            res.violation(["request-without-response", "sync", st], witness, {})
        else:
            fd = lsp.latest_diagnostics(client.notifications)
            for uri, text in docs.items():
                if text is None:
                    continue
                ds = fd.get(uri, [])
                check_ranges("diagnostics", ds, uri, docs, root, res, witness)
                pr = probe.safe_call({"op": "parse", "text": text})
                if pr.get("ok") is False and len(ds) != 1:
                    res.violation(["syntax-error-diagnostic-count"], witness, {})
                if pr.get("ok"):
                    with core.TempProject("c20b") as bp:
                        shutil.copytree(root, bp.path("ws"))
                        p = os.path.join(bp.path("ws"), os.path.basename(uri[7:]))
                        open(p, "w", encoding="utf-8", newline="").write(text)
                        ev = core.run_cli(["build", os.path.basename(p)], bp.path("ws"))
                        if ev["exit"] == 0 and ds:
                            res.violation(["diagnostic-on-text-that-builds"], witness, {"diagnostics": [d.get("message") for d in ds[:3]]})
            st, rc = client.shutdown()
            if st != "ok" or rc != 0:
                res.violation(["unclean-shutdown"], witness, {})
            fresh = lsp.LspClient(root, tp.path("home"))
            st, _ = fresh.initialize(root)
            if st == "ok":
                for uri, text in docs.items():
                    if text is None:
                        continue
                    fresh.notify("textDocument/didOpen", {"textDocument": {"uri": uri, "languageId": "ucg", "version": 1, "text": text}})
                    st2, _ = fresh.request("workspace/symbol", {"query": ""}, timeout=10.0)
                    if st2 != "ok":
                        break
                    a = sorted(map(lsp.diag_key, fd.get(uri, [])), key=repr)
                    b = sorted(map(lsp.diag_key, lsp.latest_diagnostics(fresh.notifications).get(uri, [])), key=repr)
                    if a != b:
                        res.violation(["session-diagnostics-differ-from-fresh-server"], witness, {"session": a[:4], "fresh": b[:4]})
                fresh.shutdown()
            fresh.kill()
        client.kill()
    finally:
        probe.stop()
        tp.cleanup()
    return res


def replay_known(entry):
    w = entry.get("witness", {})
    if "script" not in w:
        return None
    res = replay_script(w["script"])
    if entry.get("status") == "known":
        return any(v["signature"][:2] == entry["signature"][:2] for v in res.violations)
    return bool(res.violations)


def replay(path, tier, seed):
    d = json.load(open(path))
    res = replay_script(d["witness"]["script"])
    if res.violations:
        print("VIOLATION property=C20 replay=%s" % path)
        print(json.dumps(res.violations[0], indent=1)[:1500])
        return 1
    print("replay: no violation")
    return 0
