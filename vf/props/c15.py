"""C15 - included data files decode to the data they contain."""
import base64
import json
import os
import re
import shutil

from .. import core, decoders, docgen
from ..decoders import Num

RULE = ("documents written by Python (json.dumps with random indentation/escaping, my own TOML and block/flow YAML "
        "writers for the agreed subset) over nested containers, integer extremes, floats and Unicode strings, plus "
        "truncated / corrupted variants of each; `let v = include <fmt> \"file\";` is evaluated by the real code and the "
        "tagged value (int vs float kept apart) is compared with what CPython json / tomllib / libyaml+YAML-1.2 "
        "resolver read from the same bytes: a variant the strict decoder rejects must be a build error, one it accepts "
        "must agree; constructs on which decoders legitimately differ (duplicate keys, integers outside i64, YAML "
        "anchors/tags/merge keys/non-string keys/1.1-only scalars, lone surrogates, -0, TOML dates) are excluded and "
        "counted. `include str` must equal the file text, `include b64|b64urlsafe` Python's base64 of the file bytes "
        "(text, empty and arbitrary binary files); unknown include types and missing files must fail. distinct = "
        "distinct (format, file bytes); non-trivial = a container document or a non-ASCII / binary file.")
RULE += (" " + 'Also: byte-level corruption of every second document into invalid UTF-8 (stray, truncated, overlong and surrogate sequences, never at the first two bytes); files whose sizes sit around 256, 1024, 2048, 4096, 8192 and 65,536 bytes; documents with a long string and a long list next to the data.')
RULE += (" " + 'Every fourth agreeing document and every third str / b64 file is also included from a built file (type checker on) and used as what it is (v + "!", v + 1, v && true, v + [1], v{zz = 1}); the same file is included under 2..5 types in one program, each compared with the include alone, and a malformed include after good ones must still fail.')
RULE += (" " + 'Round 8: integers outside i64 (excluded from the exact comparison, decoders legitimately differ) are judged by a weaker oracle in json and yaml documents of four shapes: the include fails or the place holds a number equal to the document value to double precision, never another number.')

I64 = (-(2 ** 63), 2 ** 63 - 1)


def walk(d):
    yield d
    if isinstance(d, list):
        for x in d:
            for y in walk(x):
                yield y
    elif isinstance(d, dict):
        for k, v in d.items():
            for y in walk(v):
                yield y


def excluded(fmt, text, dec, stats):
    """reason string if the document uses a construct on which decoders legitimately differ"""
    for x in walk(dec):
        if isinstance(x, Num) and x.is_int and x.frac is not None and not (I64[0] <= x.frac <= I64[1]):
            return "integer outside i64"
        if isinstance(x, dict) and any(not isinstance(k, str) for k in x):
            return "non-string mapping key"
        if isinstance(x, dict) and "<<" in x:
            return "merge key"
        if isinstance(x, Num) and x.special and not re.search(r"inf|nan", text, re.I):
            return "number outside the double range"
    if fmt == "json":
        if re.search(r"(?<![0-9.eE+\-])-0(?![0-9.eE])", text):
            return "negative zero integer"
        if re.search(r"\\u[dD][89a-fA-F]", text):
            return "surrogate escape"
        if text.startswith("﻿"):
            return "byte order mark"
    if fmt == "yaml":
        for k in ("yaml_aliases", "yaml_explicit_tags", "yaml11_vs_12_plain_scalars"):
            if stats.get(k):
                return k
        if re.search(r"(^|[\s\[,:{-])[-+]?(0o|0x)[0-9A-Fa-f]", text) or re.search(r"[-+]?\.(inf|Inf|INF|nan|NaN|NAN)", text):
            return "yaml non-decimal or special number spelling"
        if re.search(r"(^|[\s\[,:{-])[-+]?[0-9]+\.[0-9]*[eE]?$", text, re.M) and False:
            return None
        if re.search(r"(^|[\s\[,:{-])\+[0-9]", text):
            return "explicit plus sign"
        if re.search(r"(^|[\s\[,:{-])[-+]?0[0-9]", text):
            return "number with a leading zero"
        if "\x85" in text or " " in text or " " in text or "﻿" in text:
            return "unicode line break / BOM"
        if re.search(r"^%", text, re.M):
            return "directive"
    depth = 0
    m = 0
    for ch in text:
        if ch in "[{":
            depth += 1
            m = max(m, depth)
        elif ch in "]}":
            depth -= 1
    if m > 100:
        return "nesting > 100"
    return None


def decode(fmt, text, stats):
    if fmt == "json":
        return decoders.decode_json(text)
    if fmt == "toml":
        return decoders.decode_toml(text)
    return decoders.decode_yaml(text, stats)


def diff_typed(exp, got, path="$"):
    d = decoders.diff(exp, got, path)
    if d:
        return d
    # integers as integers, other numbers as floats
    if isinstance(exp, Num) and isinstance(got, Num) and exp.is_int != got.is_int and not exp.special:
        return path, "int-vs-float", exp, got
    if isinstance(exp, dict):
        for k in exp:
            d = diff_typed(exp[k], got[k], path + "." + repr(k)[:20])
            if d:
                return d
    if isinstance(exp, list):
        for i, (a, b) in enumerate(zip(exp, got)):
            d = diff_typed(a, b, "%s[%d]" % (path, i))
            if d:
                return d
    return None


class Env:
    def __init__(self, tag):
        self.dir = os.path.join(core.SCRATCH, "c15-%s-%d" % (tag, os.getpid()))
        os.makedirs(self.dir, exist_ok=True)
        self.probe = core.Probe()
        self.n = 0

    def close(self):
        self.probe.stop()
        shutil.rmtree(self.dir, ignore_errors=True)

    def include(self, fmt, data):
        self.n += 1
        name = "d%d.dat" % self.n
        p = os.path.join(self.dir, name)
        with open(p, "wb") as f:
            f.write(data)
        text = 'let v = include %s "%s";' % (fmt, p)
        r = self.probe.safe_call({"op": "eval", "text": text, "reuse_max": 300, "cwd": self.dir})
        try:
            os.remove(p)
        except OSError:
            pass
        return r

    def include_many(self, fmts, data):
        """one program that includes the SAME file once per entry of fmts, in that order: v0, v1, ..."""
        self.n += 1
        p = os.path.join(self.dir, "d%d.dat" % self.n)
        with open(p, "wb") as f:
            f.write(data)
        outs = []
        # every include on its own first (reference for the combined program), each in a fresh evaluation
        for fmt in fmts:
            outs.append(self.probe.safe_call({"op": "eval", "text": 'let v = include %s "%s";' % (fmt, p), "reuse_max": 300, "cwd": self.dir}))
        text = "".join('let v%d = include %s "%s";\n' % (i, fmt, p) for i, fmt in enumerate(fmts))
        # the failing includes are left out of the combined program, which must then succeed
        good = [i for i, o in enumerate(outs) if o.get("ok")]
        text_good = "".join('let v%d = include %s "%s";\n' % (i, fmts[i], p) for i in good)
        comb = self.probe.safe_call({"op": "eval", "text": text_good, "reuse_max": 300, "cwd": self.dir}) if good else None
        # and each failing include after all the good ones must still fail
        after = {}
        for i, o in enumerate(outs):
            if not o.get("ok") and "err" in o and good:
                after[i] = self.probe.safe_call({"op": "eval", "text": text_good + 'let bad = include %s "%s";\n' % (fmts[i], p), "reuse_max": 300, "cwd": self.dir})
        try:
            os.remove(p)
        except OSError:
            pass
        return outs, good, comb, after

    def include_used(self, fmt, data, use):
        self.n += 1
        p = os.path.join(self.dir, "d%d.dat" % self.n)
        u = os.path.join(self.dir, "u%d.ucg" % self.n)
        with open(p, "wb") as f:
            f.write(data)
        with open(u, "w", encoding="utf-8") as f:
            f.write('let v = include %s "%s";\nlet u = %s;\n' % (fmt, p, use))
        r = self.probe.safe_call({"op": "build", "path": u, "strict": True, "reuse_max": 300})
        for q in (p, u):
            try:
                os.remove(q)
            except OSError:
                pass
        return r


def use_of(dec):
    """an expression that uses the included value `v` the way its decoded type is used, and the type's name"""
    if isinstance(dec, bool):
        return "v && true", "bool"
    if isinstance(dec, int):
        return "v + 1", "int"
    if isinstance(dec, float):
        return "v + 0.5", "float"
    if isinstance(dec, str):
        return "v + \"!\"", "str"
    if isinstance(dec, list):
        return "v + [1]", "list"
    if isinstance(dec, dict):
        return "v{zz_added = 1}", "tuple"
    return "v == NULL", "null"


def judge_use(env, fmt, data, dec, res, witness):
    """the included value is built as a FILE (the type checker runs) and used according to its type"""
    use, tn = use_of(dec)
    r = env.include_used(fmt, data, use)
    if "panic" in r or "crash" in r or "hang" in r or "inconclusive" in r:
        res.count("crash-left-to-C04")
        return
    if not r.get("ok"):
        # one class for documents whose top-level value is a scalar (the checker types every json / yaml / toml include as
        # tuple-or-list, pinned by a unit test): the known finding; everything else is keyed on format and type
        where = "scalar-document" if fmt in ("json", "yaml", "toml") and tn in ("bool", "int", "float", "str") else "%s:%s" % (fmt, tn)
        res.violation(["included-value-rejected-when-used-as-its-type", where, cls(r.get("err", ""))[:60]], dict(witness, use=use, where=where), {"err": r.get("err", "")[:300]})
        return
    res.count("used-as-its-type:%s:%s" % (fmt, tn))


ALL_TYPES = ["str", "b64", "b64urlsafe", "json", "yaml", "toml"]


def judge_many(env, r, data, res):
    """the same file included under several types in one program: every include yields what it yields alone"""
    fmts = r.sample(ALL_TYPES, r.randint(2, 4))
    if r.random() < 0.3:
        fmts.append(fmts[0])
    outs, good, comb, after = env.include_many(fmts, data)
    if any(("panic" in o or "crash" in o or "hang" in o or "inconclusive" in o) for o in outs + ([comb] if comb else []) + list(after.values())):
        res.count("crash-left-to-C04")
        return
    witness = {"formats": fmts, "file_b64": core.b64e(data)}
    res.case(("many", tuple(fmts), data), nontrivial=True)
    if comb is not None:
        if not comb.get("ok"):
            res.violation(["same-file-several-types", "combined-program-fails"], witness, {"err": comb.get("err", "")[:200]})
            return
        vals = dict((k, v) for k, v in comb["val"]["T"])
        for i in good:
            alone = dict((k, v) for k, v in outs[i]["val"]["T"]).get("v")
            if vals.get("v%d" % i) != alone:
                res.violation(["same-file-several-types", "value-differs-from-alone", fmts[i], "after:" + (fmts[good[good.index(i) - 1]] if good.index(i) else "-")], witness,
                              {"alone": repr(alone)[:120], "combined": repr(vals.get("v%d" % i))[:120]})
                return
    for i, o in after.items():
        if o.get("ok"):
            res.violation(["same-file-several-types", "malformed-accepted-after-other-include", fmts[i]], witness, {"alone_err": outs[i].get("err", "")[:160]})
            return
    res.count("same-file-several-types-agree")


def judge_doc(env, fmt, text, res, label):
    data = text.encode("utf-8", "surrogatepass") if isinstance(text, str) else text
    try:
        text_s = data.decode("utf-8")
    except UnicodeDecodeError:
        text_s = None
    stats = {}
    dec = err = None
    if text_s is None:
        err = "not utf-8"
    else:
        try:
            dec = decode(fmt, text_s, stats)
        except decoders.DecodeError as e:
            err = str(e)
    res.case((fmt, data), nontrivial=isinstance(dec, (list, dict)) and bool(dec))
    res.count("label:%s:%s" % (label, fmt))
    if err is not None and ("duplicate" in err or "unsupported value type" in err or "explicit tag" in err or "complex mapping key" in err
                            or "unknown alias" in err):
        res.count("excluded:" + (err.split(":", 1)[-1]).strip()[:24])
        return
    if dec is not None or err is None:
        ex = excluded(fmt, text_s, dec, stats)
        if ex:
            res.count("excluded:" + ex)
            return
    r = env.include(fmt, data)
    if "panic" in r or "crash" in r or "hang" in r or "inconclusive" in r:
        res.count("crash-left-to-C04")
        return
    witness = {"format": fmt, "file_b64": core.b64e(data)}
    if err is not None:
        # the strict decoder rejects it: must be a build error
        if r.get("ok"):
            if text_s is not None and text_s.strip() == "" and fmt == "yaml":
                res.count("excluded:empty yaml stream")
                return
            res.violation(["malformed-input-accepted", fmt, cls(err)], witness,
                          {"decoder_error": err[:200], "ucg_value": r["val"], "text": (text_s or "")[:300]})
        else:
            res.count("malformed-rejected:" + fmt)
        return
    if not r.get("ok"):
        res.violation(["well-formed-input-rejected", fmt, cls(r.get("err", ""))], witness, {"err": r.get("err", "")[:300], "text": text_s[:300]})
        return
    got_t = dict((k, v) for k, v in r["val"]["T"]).get("v")
    try:
        got = decoders.to_tagged_cmp(got_t)
    except decoders.DecodeError as e:
        res.violation(["duplicate-field-in-included-value", fmt], witness, {"text": text_s[:300]})
        return
    d = diff_typed(dec, got)
    if d:
        path, k, a, b = d
        res.violation(["included-value-differs", fmt, k], witness, {"text": text_s[:400], "path": path, "decoder": repr(a)[:120], "ucg": repr(b)[:120]})
        return
    res.count("agree:" + fmt)
    if env.n % 4 == 0:
        judge_use(env, fmt, data, dec, res, witness)


def judge_bigint(env, fmt, text, n, shape, res):
    rr = env.include(fmt, text.encode("utf-8"))
    res.case((fmt, text), nontrivial=True)
    res.count("label:integer-outside-i64:" + fmt)
    if "panic" in rr or "crash" in rr or "hang" in rr or "inconclusive" in rr:
        res.count("crash-left-to-C04")
        return
    if not rr.get("ok"):
        res.count("integer-outside-i64:refused:" + fmt)
        return
    v = dict((k, x) for k, x in rr["val"]["T"]).get("v")
    path = [["T", "n"], ["L", 0], ["T", "a", "T", "b", "L", 1], ["T", "n"]][shape]
    try:
        for i in range(0, len(path), 2):
            v = dict((k, x) for k, x in v["T"])[path[i + 1]] if path[i] == "T" else v[path[i + 1]]
    except Exception:
        v = "<missing>"
    if isinstance(v, dict) and "i" in v:
        x = int(v["i"])
        okv = (x == n)
        how = "int"
    elif isinstance(v, dict) and "f" in v:
        import struct
        from fractions import Fraction
        xf = struct.unpack(">d", bytes.fromhex(v["f"]))[0]
        okv = xf == xf and xf not in (float("inf"), float("-inf")) and abs(Fraction(xf) - n) <= abs(Fraction(n)) / 2 ** 52
        how = "nearest-double"
    else:
        okv, how = False, "not-a-number"
    if not okv:
        res.violation(["integer-outside-i64-read-as-another-number", fmt, how], {"format": fmt, "file_b64": core.b64e(text.encode("utf-8")), "bigint": str(n), "shape": shape},
                      {"text": text, "ucg": v})
    else:
        res.count("integer-outside-i64:%s:%s" % (how, fmt))


def cls(msg):
    m = re.sub(r"[0-9]+", "N", msg)
    m = re.sub(r"/\S+", "_", m)
    return m[:40]


def task(args):
    kind = args[0]
    res = core.Result()
    env = Env("%s%s" % (kind[0], args[2] if len(args) > 2 else ""))
    try:
        if kind == "docs":
            _, seed, idx, count = args
            r = core.rng_for(seed, "c15", idx)
            for c in range(count):
                fmt = ["json", "yaml", "toml"][c % 3]
                data = docgen.rand_data(r, depth=r.choice([1, 2, 3, 4]), fmt=fmt)
                if r.random() < 0.03 and isinstance(data, dict) and "pad" not in data:
                    # a document larger than any internal buffer: a long string and a long list next to the data
                    n = r.choice([1023, 1024, 1025, 4096, 8191, 8192, 8193, 20000, 70000])
                    data = dict(data)
                    data["pad"] = "".join(r.choice("abcxyz \u00e9") for _ in range(n))
                    data["nums"] = list(range(r.choice([100, 1000, 3000])))
                if fmt == "json":
                    text = docgen.write_json(r, data)
                elif fmt == "toml":
                    text = docgen.write_toml(r, data)
                else:
                    text = docgen.write_yaml_doc(r, data)
                judge_doc(env, fmt, text, res, "generated")
                for k in range(2):
                    judge_doc(env, fmt, docgen.corrupt(r, text), res, "corrupted")
                if c % 2 == 0:
                    judge_doc(env, fmt, docgen.corrupt_bytes(r, text.encode("utf-8", "surrogatepass")), res, "invalid-utf8")
                if c % 5 == 0:
                    judge_many(env, r, text.encode("utf-8", "surrogatepass"), res)
                    judge_many(env, r, docgen.corrupt(r, text).encode("utf-8", "surrogatepass"), res)
                if c < 1 and idx < 3:
                    res.sample({"format": fmt, "text": text[:300]})
        elif kind == "bigint":
            # integers outside i64: the decoders legitimately differ on them (exact, nearest double, refusal), so the exact
            # comparison leaves them out.  What no correct decoder does is hand over ANOTHER number: the include either fails
            # or puts a number there that equals the document's to the precision of a double.
            _, seed, idx, count = args
            r = core.rng_for(seed, "c15b", idx)
            base = [2 ** 63, 2 ** 63 + 1, 2 ** 64 - 1, 2 ** 64, 2 ** 64 + 1, 10 ** 19, 10 ** 20, 10 ** 30, 2 ** 100, 2 ** 127, 2 ** 128,
                    -(2 ** 63) - 1, -(2 ** 64), -(10 ** 19), -(10 ** 25), 2 ** 63 + 12345, 2 ** 64 - 2, 3 * 2 ** 62, 12345678901234567890]
            for c in range(count):
                n = r.choice(base) if c < 4 * len(base) else r.choice(base) + r.randint(-1000, 1000) * r.choice([1, 2 ** 20])
                if I64[0] <= n <= I64[1]:
                    continue
                fmt = ("json", "yaml")[c % 2]
                shape = c // 2 % 4
                if fmt == "json":
                    text = ['{"n": %d}', '[%d]', '{"a": {"b": [1, %d]}}', '{"small": 1, "n": %d, "s": "x"}'][shape] % n
                else:
                    text = ["n: %d\n", "- %d\n", "a:\n  b:\n  - 1\n  - %d\n", "small: 1\nn: %d\ns: x\n"][shape] % n
                judge_bigint(env, fmt, text, n, shape, res)
        elif kind == "raw":
            _, seed, idx, count = args
            r = core.rng_for(seed, "c15r", idx)
            from .. import hostile
            for c in range(count):
                x = r.random()
                if x < 0.15:
                    data = b""
                elif x < 0.5:
                    data = hostile.rand_unicode(r, r.randint(1, 60)).replace("\x00", "").encode("utf-8")
                elif x < 0.65:
                    data = ("line1\r\nline2\n\ttab \"q\" \\ back\n" * r.randint(1, 3)).encode("utf-8")
                elif x < 0.88:
                    data = bytes(r.getrandbits(8) for _ in range(r.randint(1, 80)))
                else:
                    # sizes around the block sizes an encoder or reader might use internally
                    n = r.choice([255, 256, 257, 1022, 1023, 1024, 1025, 1026, 2048, 2049, 3000, 4095, 4096, 4097, 8191, 8192, 8193, 10000, 65536, 65537])
                    data = (bytes(r.getrandbits(8) for _ in range(n)) if r.random() < 0.5
                            else ("".join(r.choice("abc \n\u00e9\u4e2d") for _ in range(n))).encode("utf-8"))
                try:
                    as_text = data.decode("utf-8")
                except UnicodeDecodeError:
                    as_text = None
                if c % 3 == 0:
                    judge_many(env, r, data, res)
                for fmt in ("str", "b64", "b64urlsafe"):
                    res.case((fmt, data), nontrivial=(as_text is None or any(b > 127 for b in data)))
                    rr = env.include(fmt, data)
                    if "panic" in rr or "crash" in rr or "hang" in rr or "inconclusive" in rr:
                        res.count("crash-left-to-C04")
                        continue
                    witness = {"format": fmt, "file_b64": core.b64e(data)}
                    if fmt == "str":
                        if as_text is None:
                            res.count("str-of-non-text-file (no verdict)")
                            continue
                        exp = as_text
                    elif fmt == "b64":
                        exp = base64.b64encode(data).decode("ascii")
                    else:
                        exp = base64.urlsafe_b64encode(data).decode("ascii")
                    if not rr.get("ok"):
                        kindf = "binary-file" if as_text is None else ("empty-file" if not data else "text-file")
                        res.violation(["include-fails", fmt, kindf], witness, {"err": rr.get("err", "")[:200]})
                        continue
                    got = dict((k, v) for k, v in rr["val"]["T"]).get("v")
                    if got != exp:
                        kindf = "empty-file" if not data else "content"
                        res.violation(["include-value-differs", fmt, kindf], witness, {"expected": exp[:100], "ucg": repr(got)[:100]})
                    else:
                        res.count("agree:" + fmt)
                        if env.n % 3 == 0:
                            judge_use(env, fmt, data, exp, res, witness)
            # unknown type / missing file
            for text in ['let v = include nosuch "%s";' % os.path.join(env.dir, "x"), 'let v = include json "%s";' % os.path.join(env.dir, "missing.json"),
                         'let v = include str "%s";' % os.path.join(env.dir, "missing.txt")]:
                rr = env.probe.safe_call({"op": "eval", "text": text})
                res.case(text)
                if rr.get("ok"):
                    res.violation(["bad-include-accepted"], {"text": text}, {})
                else:
                    res.count("bad-include-rejected")
            res.sample({"kind": "raw", "bytes_b64": core.b64e(data)})
    finally:
        env.close()
    return res


def run(tier, seed, t0):
    q = tier == "quick"
    n = 24000 if q else 300000
    sh = 32 if q else 128
    tasks = [("docs", seed, i, n // sh) for i in range(sh)]
    nr = 4000 if q else 40000
    tasks += [("raw", seed, i, nr // 16) for i in range(16)]
    tasks += [("bigint", seed, i, 160 if q else 1500) for i in range(4)]
    res = core.run_parallel(task, tasks)
    extra = None
    if not q:
        # sanitizer supplement: the importers on hostile documents, interpreted by Miri
        from .. import sanitizers
        m = sanitizers.fold_miri(res, "C15")
        extra = {"sanitizer_supplement": {"tool": "cargo +nightly miri run (harness bin miri_conv, 20 shards)", "status": m["status"],
                                          "imports_interpreted": m["imports"], "conversions_interpreted": m["conversions"],
                                          "undefined_behaviour_reports": len(m["ub_reports"])}}
    return core.finish("C15", tier, seed, res, RULE, t0, replay_known=replay_known, extra=extra,
                       assumptions=["independent decoders are trusted (CPython json strict, tomllib, libyaml + YAML 1.2 core resolver)",
                                    "documents using constructs on which decoders legitimately differ are excluded and counted"])


def check_witness(w):
    res = core.Result()
    env = Env("r")
    try:
        data = core.b64d(w["file_b64"])
        fmt = w.get("format")
        if w.get("formats"):
            import random
            class _R:
                def sample(self, a, n): return list(w["formats"])
                def randint(self, a, b): return len(w["formats"])
                def random(self): return 1.0
            judge_many(env, _R(), data, res)
            return res
        if w.get("bigint"):
            judge_bigint(env, fmt, data.decode("utf-8"), int(w["bigint"]), w["shape"], res)
            return res
        if w.get("use"):
            # the value used according to its type in a built file
            r = env.include_used(fmt, data, w["use"])
            if not r.get("ok") and not ("panic" in r or "crash" in r or "hang" in r or "inconclusive" in r):
                res.violation(["included-value-rejected-when-used-as-its-type", w.get("where", "replay"), cls(r.get("err", ""))[:60]], w, {"err": r.get("err", "")[:300]})
            return res
        if fmt in ("json", "yaml", "toml"):
            judge_doc(env, fmt, data, res, "replay")
        else:
            rr = env.include(fmt, data)
            exp = None
            try:
                exp = data.decode("utf-8") if fmt == "str" else (base64.b64encode(data) if fmt == "b64" else base64.urlsafe_b64encode(data)).decode("ascii")
            except UnicodeDecodeError:
                pass
            if exp is not None:
                if not rr.get("ok"):
                    res.violation(["include-fails", fmt], w, {})
                elif dict((k, v) for k, v in rr["val"]["T"]).get("v") != exp:
                    res.violation(["include-value-differs", fmt], w, {})
    finally:
        env.close()
    return res


def replay_known(entry):
    w = entry.get("witness", {})
    if "file_b64" not in w:
        return None
    res = check_witness(w)
    if entry.get("status") == "known":
        return any(v["signature"][:2] == entry["signature"][:2] for v in res.violations)
    return bool(res.violations)


def replay(path, tier, seed):
    d = json.load(open(path))
    if d["witness"].get("tool") == "miri":
        from .. import sanitizers
        res = core.Result()
        sanitizers.fold_miri(res, "C15")
    else:
        res = check_witness(d["witness"])
    if res.violations:
        print("VIOLATION property=C15 replay=%s" % path)
        print(json.dumps(res.violations[0], indent=1)[:1500])
        return 1
    print("replay: no violation")
    return 0
