"""C07 - the static checker never rejects a program that evaluates successfully (differential: VM only vs checker + VM)."""
import json
import os
import re
import shutil

from .. import core, gen, progs, refint

RULE = ("constraint-free programs from the typed generator in well-typed mode (p_bad = 0) over the first-order fragment "
        "named by the quantifier; each is evaluated by FileBuilder::eval_string (no checker) and, when that succeeds, "
        "written to a file and built by FileBuilder::build (type checker, then the same VM): the build must succeed "
        "and bind the same values. A catalogue of documented constructs (functional ops over tuples and strings, "
        "calls through tuple fields, nested/computed selectors, heterogeneous list concatenation, NULL wildcards) is "
        "always included. distinct = distinct program texts that evaluate; non-trivial = uses a functional op, a "
        "call, a selector, a module, a select or a copy.")
RULE += (" " + 'Also: a dynamic-heterogeneity family - 34 program shapes x every ordered pair of the four scalar types - in which select arms / defaults, list elements, callback results, copy overrides, module parameters and closure results of DIFFERENT types occur and only the one that is taken is used, according to its own type; record functions reading up to four fields of an untyped parameter; callbacks and functions whose parameters are named like caller bindings of other types (also inside composite literals); tuples whose fields are named like caller bindings.')
RULE += (" " + 'Nine further heterogeneity shapes: a reduce that grows its accumulator (copy adds a field, list gets other elements), select arms of unknown shape next to candidate sets, modules instantiated with wider tuples than their defaults, type-guarded select arms in functions called with several types.')
RULE += (" " + 'Five more shapes: modules with 2..3 parameters of which one (first, middle, last, a list of tuples) is given something wider than its default.')
RULE += (" " + 'Four more shapes: a copy that overrides a field with a tuple of other fields (or NULL, or twice), reached as a list element or a select arm.')

NONTRIVIAL = {"map", "filter", "reduce", "call", "sel", "module", "select", "copy", "fmt", "fmt1", "range", "cast"}

LITS = {"int": ["1", "42"], "str": ["\"s\"", "\"two\""], "bool": ["true", "false"], "float": ["1.5", "0.25"]}
USE = {"int": "%s + 1", "str": "%s + \"x\"", "bool": "%s && true", "float": "%s + 0.5"}


def hetero_programs(r):
    """programs that are fine for a dynamically typed language but mix types where a static checker has to keep several
    candidates: arms / defaults / elements / callbacks / overrides of DIFFERENT types, of which only the one that is taken
    is then used according to its own type.  -> [(label, text)]"""
    out = []
    types = list(LITS)
    for A in types:
        for B in types:
            if A == B:
                continue
            a, b = r.choice(LITS[A]), r.choice(LITS[B])
            ua, ub = USE[A], USE[B]
            P = lambda label, text: out.append((label, text))
            # select: the taken arm has type A, the others / the default have type B
            P("select-arms-differ", "let s = select (\"k\") => {k = %s, j = %s}; let v = %s;" % (a, b, ua % "s"))
            P("select-default-differs-taken", "let s = select (\"zz\", %s) => {k = %s}; let v = %s;" % (a, b, ua % "s"))
            P("select-default-differs-not-taken", "let s = select (\"k\", %s) => {k = %s}; let v = %s;" % (b, a, ua % "s"))
            P("select-default-inline-use", "let v = %s;" % (ua % ("(select (\"zz\", %s) => {k = %s})" % (a, b))))
            P("select-bool-arms-differ", "let c = 1 == 1; let s = select (c) => {true = %s, false = %s}; let v = %s;" % (a, b, ua % "s"))
            P("select-tuple-arms-extra-field", "let s = select (\"y\") => {x = {a = %s}, y = {a = %s, b = %s}}; let v = %s;" % (b, b, a, ua % "s.b"))
            P("select-tuple-arms-field-type-differs", "let s = select (\"y\") => {x = {a = %s}, y = {a = %s}}; let v = %s;" % (b, a, ua % "s.a"))
            P("select-list-arms-differ", "let s = select (\"y\") => {x = [%s], y = [%s, %s]}; let v = %s;" % (b, b, a, ua % "s.1"))
            P("select-result-copied", "let s = select (\"x\") => {x = {a = %s}}; let w = s{b = %s}; let v = %s;" % (b, a, ua % "w.b"))
            P("select-result-copied-2-arms", "let s = select (\"x\") => {x = {a = %s}, y = {c = %s}}; let w = s{b = %s}; let v = %s;" % (b, b, a, ua % "w.b"))
            # lists
            P("list-heterogeneous-index", "let l = [%s, %s]; let v = %s; let w = %s;" % (a, b, ua % "l.0", ub % "l.1"))
            P("list-concat-heterogeneous-index", "let l = [%s, %s] + [%s]; let v = %s;" % (a, b, a, ub % "l.1"))
            P("list-concat-then-index", "let l = [%s] + [%s]; let v = %s;" % (a, b, ub % "l.1"))
            P("list-concat-tuples-wider-right", "let l = [{a = %s}] + [{a = %s, b = %s}]; let v = %s;" % (b, b, a, ua % "(l.1).b"))
            P("list-concat-tuples-wider-left", "let l = [{a = %s, b = %s}] + [{a = %s}]; let v = %s;" % (b, a, b, ua % "(l.0).b"))
            P("returned-closure-returns-outer-parameter", "let x = %s; let mk = func (x) => func (y) => x; let g = mk(%s); let v = %s; let w = %s;"
              % (b, a, ua % "g(0)", ub % "x"))
            P("returned-closure-in-tuple", "let x = %s; let mk = func (x) => {get = func () => x}; let o = mk(%s); let v = %s; let w = %s;"
              % (b, a, ua % "o.get()", ub % "x"))
            P("list-of-lists-differ", "let l = [[%s], [%s]]; let v = %s;" % (a, b, ub % "(l.1).0"))
            P("map-result-types-differ", "let l = map(func (x) => select (x == 1, %s) => {true = %s}, [1, 2]); let v = %s;" % (b, a, ua % "l.0"))
            # tuples / copies
            P("copy-nested-override-extra-field", "let t = {a = {x = %s}}; let u = t{a = {x = %s, y = %s}}; let v = %s;" % (b, b, a, ua % "u.a.y"))
            P("copy-adds-field", "let t = {a = %s}; let u = t{b = %s}; let v = %s;" % (b, a, ua % "u.b"))
            P("copy-null-field-then-typed", "let t = {a = NULL}; let u = t{a = %s}; let v = %s;" % (a, ua % "u.a"))
            P("copy-list-field-other-element-type", "let t = {l = [%s]}; let u = t{l = [%s]}; let v = %s;" % (b, a, ua % "u.l.0"))
            P("copy-tuple-field-other-fields", "let t = {i = {a = %s}}; let u = t{i = {b = %s}}; let v = %s;" % (b, a, ua % "u.i.b"))
            # functions
            P("func-returns-by-argument", "let f = func (c) => select (c, %s) => {true = %s}; let v = %s; let w = %s;" % (b, a, ua % "f(true)", ub % "f(false)"))
            P("func-identity-two-types", "let f = func (x) => x; let v = %s; let w = %s;" % (ua % ("f(%s)" % a), ub % ("f(%s)" % b)))
            P("func-field-of-argument-two-shapes", "let f = func (t) => t.a; let v = %s; let w = %s;" % (ua % ("f({a = %s})" % a), ub % ("f({a = %s, z = 1})" % b)))
            P("reduce-callback-other-type-than-acc", "let r = reduce(func (acc, x) => %s, %s, [1, 2]); let v = %s;" % (a, b, ua % "r"))
            P("reduce-over-empty-keeps-acc", "let r = reduce(func (acc, x) => %s, %s, []); let v = %s;" % (a, b, ub % "r"))
            # modules
            P("module-param-list-other-element-type", "let m = module {l = [%s]} => (mod.l) {}; let r = m{l = [%s]}; let v = %s;" % (b, a, ua % "r.0"))
            P("module-param-tuple-other-fields", "let m = module {t = {a = %s}} => (mod.t) {}; let r = m{t = {b = %s}}; let v = %s;" % (b, a, ua % "r.b"))
            P("module-null-param-two-types", "let m = module {p = NULL} => (mod.p) {}; let v = %s; let w = %s;" % (ua % ("m{p = %s}" % a), ub % ("m{p = %s}" % b)))
            P("module-result-by-param", "let m = module {c = true} => (r) {let r = select (mod.c, %s) => {true = %s};}; let v = %s; let w = %s;" % (b, a, ua % "m{}", ub % "m{c = false}"))
            # in / is guards
            P("is-guard", "let x = %s; let v = select (x is \"%s\", %s) => {true = %s};" % (a, A, a, ua % "x"))
            # further shapes (reported by a sub-agent on the unmodified tree)
            P("select-arm-nested-select-then-call-result", "let f = func (x) => x; let s = select (\"b\") => {a = select (\"a\") => {a = %s}, b = f(%s)}; let v = %s;" % (b, a, ua % "s"))
            P("select-arm-call-result-then-nested-select", "let f = func (x) => x; let s = select (\"b\") => {b = f(%s), a = select (\"a\") => {a = %s}}; let v = %s;" % (a, b, ua % "s"))
            P("reduce-acc-copy-adds-field", "let r = reduce(func (acc, x) => acc{a = x}, {}, [%s, %s]); let v = %s;" % (a, a, ua % "r.a"))
            P("reduce-acc-copy-adds-field-to-typed-init", "let r = reduce(func (acc, x) => acc{a = x}, {z = %s}, [%s]); let v = %s; let w = %s;" % (b, a, ua % "r.a", ub % "r.z"))
            P("reduce-acc-list-grows-other-type", "let r = reduce(func (acc, x) => acc + [x], [%s], [%s]); let v = %s;" % (b, a, ua % "r.1"))
            P("module-returns-param-override-wider", "let m = module {x = {a = %s}} => (r) {let r = mod.x;}; let v = %s;" % (b, ua % ("m{x = {a = %s, b = %s}}.b" % (b, a))))
            P("module-returns-param-field-override-other-type", "let m = module {x = NULL, y = %s} => (r) {let r = {p = mod.x, q = mod.y};}; let o = m{x = %s}; let v = %s; let w = %s;" % (b, a, ua % "o.p", ub % "o.q"))
            # modules with several parameters, some given as declared, one given something wider
            P("module-2-params-first-wider", "let m = module {x = {a = %s}, y = 1} => (r) {let r = mod.x;}; let v = %s;" % (b, ua % ("m{x = {a = %s, b = %s}, y = 2}.b" % (b, a))))
            P("module-2-params-last-wider", "let m = module {y = 1, x = {a = %s}} => (r) {let r = mod.x;}; let v = %s;" % (b, ua % ("m{y = 2, x = {a = %s, b = %s}}.b" % (b, a))))
            P("module-3-params-middle-wider", "let m = module {w = \"s\", x = {a = %s}, y = 1} => (r) {let r = {c = mod.x, n = mod.y};}; let v = %s;"
              % (b, ua % ("m{y = 2, x = {a = %s, b = %s}, w = \"t\"}.c.b" % (b, a))))
            P("module-2-params-list-of-wider-tuples", "let m = module {xs = [{a = %s}], y = 1} => (r) {let r = mod.xs;}; let o = m{xs = [{a = %s, b = %s}], y = 2}; let v = %s;"
              % (b, b, a, ua % "(o.0).b"))
            P("module-2-params-only-wider-one-given", "let m = module {x = {a = %s}, y = 1} => (r) {let r = mod.x;}; let v = %s;" % (b, ua % ("m{x = {a = %s, b = %s}}.b" % (b, a))))
            # a copy that overrides a field with a tuple of OTHER fields, reached through a list element or a select arm
            P("copy-override-other-fields-through-list", "let base = {opts = {port = %s}}; let d = base{opts = {host = %s, tls = true}}; let l = [d, d]; let v = %s;"
              % (b, a, ua % "l.0.opts.host"))
            P("copy-override-other-fields-through-select", "let base = {opts = {port = %s}}; let d = base{opts = {host = %s}}; let s = select (\"k\") => {k = d, j = base}; let v = %s;"
              % (b, a, ua % "s.opts.host"))
            P("copy-override-other-type-through-list", "let base = {x = %s}; let d = base{x = NULL}; let e = {x = %s}; let l = [base, e]; let v = %s;" % (b, a, ua % "l.1.x"))
            P("copy-override-twice-through-list", "let base = {opts = {port = %s}}; let d = base{opts = {a = 1}}{opts = {host = %s}}; let l = [d]; let v = %s;" % (b, a, ua % "l.0.opts.host"))
            P("is-guarded-function", "let f = func (x) => select (x is \"%s\") => {true = %s, false = 0}; let r = f(%s); let w = f(%s);" % (A, ua % "x", b, a))
            P("is-guarded-function-default", "let f = func (x) => select (x is \"%s\", 0) => {true = %s}; let r = f(%s); let w = f(%s);" % (A, ua % "x", b, a))
    return out


CATALOGUE = [
    "let t = {a = 1, b = 2}; let r = map(func (k, v) => [k, v + 1], t);",
    "let t = {a = 1, b = 2}; let r = filter(func (k, v) => v > 1, t);",
    "let t = {a = 1, b = 2}; let r = reduce(func (acc, k, v) => acc + v, 0, t);",
    "let r = map(func (c) => c + c, \"abc\");",
    "let r = filter(func (c) => c != \"b\", \"abc\");",
    "let r = reduce(func (acc, c) => acc + [c], [], \"abc\");",
    "let t = {f = func (x) => x + 1, n = 1}; let r = t.f(1);",
    "let t = {inner = {f = func (x) => x}}; let r = t.inner.f(2);",
    "let t = {a = {b = {c = [1, 2, 3]}}}; let r = t.a.b.c.1;",
    "let t = {a = 1, b = 2}; let k = \"a\"; let r = t.(k);",
    "let l = [1, 2, 3]; let i = 1; let r = l.(i);",
    "let l = [1, 2, 3]; let r = l.(1 + 1);",
    "let r = [1] + [\"a\"];",
    "let r = [1, \"two\", {three = 3}];",
    "let r = [[1], [\"a\"]];",
    "let t = {a = NULL}; let r = t{a = 1};",
    "let t = {a = 1}; let r = t{a = NULL};",
    "let f = func (x) => x; let r = [f(1), f(\"a\")];",
    "let f = func (x) => x + x; let r1 = f(1); let r2 = f(\"a\"); let r3 = f([1]);",
    "let m = module {a = NULL} => (mod.a) {}; let r1 = m{a = 1}; let r2 = m{a = \"s\"};",
    "let m = module {n = 0} => (r) { let r = select (mod.n < 2, [mod.n]) => { true = [mod.n] + mod.this{n = mod.n + 1} }; }; let r = m{};",
    "let r = select (\"a\", 1) => {a = \"s\", b = 2};",
    "let r = select (true) => {true = 1, false = \"s\"};",
    "let x = 1; let r = select (x is \"int\", 0) => {true = x + 1};",
    "let t = {a = 1}; let r = \"a\" in t; let s = a in t;",
    "let r = 1 in [1, \"a\"];",
    "let r = NULL == 1; let s = 1 != NULL; let u = {a = 1} == NULL;",
    "let r = \"@ and @\" % (1, \"s\");",
    "let r = \"@{item.a}\" % {a = 1};",
    "let r = map(func (x) => x * 2, 1:5);",
    "let r = int(\"1\") + 1; let s = str(1) + \"a\"; let f = float(1) + 1.5; let b = bool(\"true\") && true;",
    "let t = {a = 1}; let u = t{b = self.a + 1};",
    "let t = {a = {b = 1}}; let u = t{a = self.a{c = 2}};",
    "let f = func (t) => t.a; let r = f({a = 1});",
    "let f = func (l) => l.0; let r = f([1]);",
    "let f = func (g, x) => g(x); let r = f(func (y) => y + 1, 1);",
    "let mk = func (n) => func (x) => x + n; let add2 = mk(2); let r = add2(1);",
    "let t = {l = [{a = 1}, {a = 2}]}; let r = t.l.1.a;",
    "let r = reduce(func (acc, x) => acc{n = self.n + x}, {n = 0}, [1, 2]);",
    "let r = filter(func (x) => select (x, NULL) => {a = x}, [\"a\", \"b\"]);",
    "let r = map(func (k, v) => select (k, [k, v]) => {a = [\"z\", v]}, {a = 1, b = 2});",
    "let e = []; let r = e + [1]; let s = [] + [\"a\"];",
    "let e = {}; let r = e{a = 1};",
    "let r = (func (x) => x)(1);" if False else "let id = func (x) => x; let r = id(id(1));",
    "let s = \"abc\"; let r = \"b\" in s;",
    "let r = 5 %% 3; let s = 7 / 2; let u = 1.5 * 2.0;",
    "let r = \"abc\" ~ \"b\"; let s = \"abc\" !~ \"z\";",
    "let r = not (1 == 2) && (1 < 2 || 2 >= 3);",
    "let t = {\"a b\" = 1, \"x-1\" = 2}; let r = t.\"a b\" + t.x-1;",
    "let l = import \"std/lists.ucg\"; let r = l.len([1, 2]);",
    "let t = import \"std/tuples.ucg\"; let r = t.fields{tpl = {a = 1}};",
    "let f = import \"std/functional.ucg\"; let r = f.identity(1);",
]


def judge(drv, text, res, label, kinds=None):
    probe = drv["probe"]
    e = probe.safe_call({"op": "eval", "text": text, "strict": True, "reuse_max": 50, "cwd": drv["dir"]}, timeout=20.0)
    if "panic" in e or "crash" in e or "hang" in e or "inconclusive" in e:
        res.count("eval-crash-or-inconclusive")
        return
    if not e.get("ok"):
        res.count("does-not-evaluate (not judged)")
        return
    drv["n"] += 1
    path = os.path.join(drv["dir"], "p%d.ucg" % drv["n"])
    with open(path, "w", encoding="utf-8") as f:
        f.write(text)
    b = probe.safe_call({"op": "build", "path": path, "strict": True, "reuse_max": 50}, timeout=20.0)
    try:
        os.remove(path)
    except OSError:
        pass
    nontrivial = bool(kinds & NONTRIVIAL) if kinds is not None else True
    res.case(text, nontrivial=nontrivial)
    res.count("label:" + label)
    if "panic" in b or "crash" in b or "hang" in b or "inconclusive" in b:
        res.count("build-crash-left-to-C04")
        return
    if not b.get("ok"):
        err = b.get("err", "")
        lines = [l for l in err.split("\n") if l.strip()]
        msg = lines[1] if len(lines) > 1 else (lines[0] if lines else "")
        m = re.sub(r" at (file: \S+ )?line: [0-9]+ column: [0-9]+.*", "", msg)
        m = re.sub(r"[0-9]+", "N", m)
        m = re.sub(r"'[^']*'", "'_'", m)
        m = re.sub(r"\"[^\"]*\"", "\"_\"", m)
        checker = "Type error" in err
        sig = ["checker-rejects" if checker else "build-fails-eval-succeeds", m[:70]]
        if label.startswith("hetero:"):
            # the family is instantiated for every pair of types: the signature names the shape of the program, not the pair
            sig[1] = re.sub(r"\b(int|str|float|boolean|bool)\b", "<t>", sig[1])
            sig.append(label[7:])
        res.violation(sig, {"text": text}, {"err": err[:400], "label": label})
        return
    ev = {k: refint.strip_r(v) for k, v in e["val"]["T"]}
    bv = {k: refint.strip_r(v) for k, v in b["val"]["T"]} if b.get("val") else {}
    diff = [k for k in ev if k not in bv or not refint.same(ev[k], bv[k])] + [k for k in bv if k not in ev]
    if diff:
        res.violation(["values-differ-with-checker"], {"text": text}, {"binding": diff[0], "eval": ev.get(diff[0]), "build": bv.get(diff[0])})
        return
    res.count("agree")


def mkdrv(tag):
    d = os.path.join(core.SCRATCH, "c07-%s-%d" % (tag, os.getpid()))
    os.makedirs(d, exist_ok=True)
    return {"probe": core.Probe(), "dir": d, "n": 0}


def task(args):
    kind = args[0]
    res = core.Result()
    drv = mkdrv(str(args[2]) if len(args) > 2 else "c")
    try:
        if kind == "gen":
            _, seed, idx, count, depth, nst = args
            r = core.rng_for(seed, "c07", idx)
            for c in range(count):
                stmts, used = progs.gen_program(r, depth=depth, nstmts=nst, p_bad=0.0, firstorder=True)
                text = gen.to_text(stmts)
                ks = progs.kinds(stmts)
                judge(drv, text, res, "generated", ks)
                for k in ks:
                    res.count("construct:" + k)
                if c < 1 and idx < 3:
                    res.sample({"text": text[:400]})
        else:
            for t in CATALOGUE:
                judge(drv, t, res, "catalogue")
            r = core.rng_for(1, "c07hetero", 0)
            for label, t in hetero_programs(r):
                res.count("hetero:" + label)
                judge(drv, t, res, "hetero:" + label)
            res.sample({"text": CATALOGUE[0]})
    finally:
        drv["probe"].stop()
        shutil.rmtree(drv["dir"], ignore_errors=True)
    return res


def run(tier, seed, t0):
    q = tier == "quick"
    n = 24000 if q else 300000
    sh = 32 if q else 128
    tasks = [("gen", seed, i, n // sh, 4 if q else 6, 8 if q else 12) for i in range(sh)] + [("catalogue",)]
    res = core.run_parallel(task, tasks)
    return core.finish("C07", tier, seed, res, RULE, t0, replay_known=replay_known,
                       assumptions=["only programs that eval_string evaluates to completion are judged",
                                    "signature of a spurious rejection = checker message with identifiers and digits stripped"])


def check_text(text, label="replay"):
    res = core.Result()
    drv = mkdrv("r")
    try:
        judge(drv, text, res, label)
    finally:
        drv["probe"].stop()
        shutil.rmtree(drv["dir"], ignore_errors=True)
    return res


def replay_known(entry):
    w = entry.get("witness", {})
    if "text" not in w:
        return None
    sig = entry.get("signature", [])
    res = check_text(w["text"], "hetero:" + sig[2] if len(sig) == 3 else "replay")
    if entry.get("status") == "known":
        return any(v["signature"] == entry["signature"] for v in res.violations)
    return bool(res.violations)


def replay(path, tier, seed):
    d = json.load(open(path))
    res = check_text(d["witness"]["text"])
    if res.violations:
        print("VIOLATION property=C07 replay=%s" % path)
        print(json.dumps(res.violations[0], indent=1)[:1500])
        return 1
    print("replay: no violation")
    return 0
