"""C12 - XML output is well-formed and mirrors the document tuple (expat round trip)."""
import io
import json
import xml.etree.ElementTree as ET

from .. import core, gen

RULE = ("document tuples generated from the documented DSL: element trees to depth 4 with 0..4 children mixing elements, "
        "bare strings and {text=} nodes; attribute values and text over XML-legal Unicode incl. < > & ' \" ]]> blanks, "
        "tabs, CR, LF; optional version/encoding/standalone in any field order; default and prefixed namespaces; NULL "
        "attrs/children/attribute values; plus malformed documents of each kind (no root, non-tuple document, node that "
        "is neither tuple nor string, name+text, bad version, text-only or empty root, non-string attribute/name). The "
        "real xml converter's bytes are parsed by expat (xml.etree, namespace-aware) and compared with the tree the "
        "tuple describes: resolved element names, attributes, namespace declarations, child order, text with "
        "whitespace-only segments ignored on both sides. A sample also goes through `out xml` with the real CLI. "
        "distinct = distinct document tuples; non-trivial = >= 2 elements or an attribute/text needing escaping.")
RULE += (" " + 'Also: declarations naming an encoding other than UTF-8 (either an error or bytes that really are in that encoding).')

NAMES = ["a", "b", "item", "Top", "x-1", "x_y", "n.m", "é", "_u", "data"]
PREFIXES = ["p", "ns1", "my"]
URIS = ["http://example.org/", "urn:x:y", "http://a/b?c=d&e=f", "uri with space", "http://é.example/"]
TEXTS = ["", "t", "hello world", "<", ">", "&", "'", "\"", "]]>", "a<b>c&d", "&amp;", "&#65;", "<!-- c -->", "<![CDATA[x]]>", " ", "  lead",
         "trail  ", "line1\nline2", "tab\there", "cr\rhere", "crlf\r\nhere", "é ü 中 \U0001F600", "\u0085nel", " ls", "x" * 120, "a  b",
         "\n", "\t", " ", "--", "?>", "<?pi?>", "%ent;", "a=\"b\""]


def rtext(r):
    if r.random() < 0.8:
        return r.choice(TEXTS)
    n = r.randint(1, 10)
    out = []
    for _ in range(n):
        x = r.random()
        if x < 0.6:
            out.append(chr(r.randint(0x20, 0x7e)))
        elif x < 0.85:
            out.append(chr(r.randint(0xa0, 0x2fff)))
        else:
            out.append(chr(r.randint(0x10000, 0x1f9ff)))
    return "".join(out)


def gen_node(r, depth, inscope):
    """-> (tagged value, model) ; model = ("e", qname, attrs, nsdecls, children) | ("t", text)"""
    x = r.random()
    if depth <= 0 or x < 0.25:
        t = rtext(r)
        if r.random() < 0.5:
            return t, ("t", t)
        return {"T": [["text", t]]}, ("t", t)
    fields = []
    scope = dict(inscope)
    nsdecl = None
    y = r.random()
    if y < 0.2:
        uri = r.choice(URIS)
        fields.append(["ns", uri])
        scope[""] = uri
        nsdecl = ("", uri)
    elif y < 0.4:
        p, uri = r.choice(PREFIXES), r.choice(URIS)
        nsf = [["prefix", p], ["uri", uri]]
        r.shuffle(nsf)
        fields.append(["ns", {"T": nsf}])
        scope[p] = uri
        nsdecl = (p, uri)
    elif y < 0.45:
        fields.append(["ns", None])
    local = r.choice(NAMES)
    prefixes = [p for p in scope if p]
    if prefixes and r.random() < 0.5:
        p = r.choice(prefixes)
        name = p + ":" + local
        q = "{%s}%s" % (scope[p], local)
    else:
        name = local
        q = ("{%s}%s" % (scope[""], local)) if scope.get("") else local
    fields.append(["name", name])
    attrs = {}
    z = r.random()
    if z < 0.5:
        af = []
        for an in r.sample(["id", "class", "k", "data-x", "A", "x_y", "é"], r.randint(0, 3)):
            if r.random() < 0.15:
                af.append([an, None])
            else:
                v = rtext(r)
                af.append([an, v])
                attrs[an] = v
        fields.append(["attrs", {"T": af}])
    elif z < 0.6:
        fields.append(["attrs", None])
    children = []
    w = r.random()
    if w < 0.7:
        cl = []
        for _ in range(r.randint(0, 4)):
            cv, cm = gen_node(r, depth - 1, scope)
            cl.append(cv)
            children.append(cm)
        fields.append(["children", cl])
    elif w < 0.8:
        fields.append(["children", None])
    r.shuffle(fields)
    return {"T": fields}, ("e", q, attrs, nsdecl, children)


def gen_doc(r):
    root_v, root_m = gen_node(r, r.choice([1, 2, 3, 4]), {})
    while root_m[0] != "e":
        root_v, root_m = gen_node(r, r.choice([1, 2, 3, 4]), {})
    fields = [["root", root_v]]
    if r.random() < 0.4:
        fields.append(["version", r.choice(["1.0", "1.1"])])
    x = r.random()
    if x < 0.3:
        fields.append(["encoding", r.choice(["utf-8", "UTF-8", "Utf-8"])])
    elif x < 0.38:
        # an encoding other than UTF-8: either an error, or bytes that really are in that encoding (the tree a parser
        # reads must be the one described either way)
        fields.append(["encoding", r.choice(["ISO-8859-1", "latin1", "us-ascii", "windows-1252", "UTF-16", "Shift_JIS"])])
    if r.random() < 0.3:
        fields.append(["standalone", r.random() < 0.5])
    r.shuffle(fields)
    return {"T": fields}, root_m


def malformed(r):
    ok_el = {"T": [["name", "a"]]}
    kinds = [
        ("no-root", {"T": [["version", "1.0"]]}),
        ("non-tuple-document", ["x"]),
        ("non-tuple-document", "text"),
        ("node-neither-tuple-nor-string", {"T": [["root", {"T": [["name", "a"], ["children", [{"i": "1"}]]]}]]}),
        ("node-neither-tuple-nor-string", {"T": [["root", {"T": [["name", "a"], ["children", [True]]]}]]}),
        ("node-neither-tuple-nor-string", {"T": [["root", {"T": [["name", "a"], ["children", [["x"]]]]}]]}),
        ("node-neither-tuple-nor-string", {"T": [["root", {"i": "1"}]]}),
        ("name-and-text", {"T": [["root", {"T": [["name", "a"], ["text", "t"]]}]]}),
        ("name-and-text", {"T": [["root", {"T": [["name", "a"], ["children", [{"T": [["text", "t"], ["name", "b"]]}]]]}]]}),
        ("bad-version", {"T": [["version", "2.0"], ["root", ok_el]]}),
        ("bad-version", {"T": [["version", ""], ["root", ok_el]]}),
        ("text-only-root", {"T": [["root", "just text"]]}),
        ("text-only-root", {"T": [["root", {"T": [["text", "t"]]}]]}),
        ("empty-root", {"T": [["root", {"T": []}]]}),
        ("empty-node", {"T": [["root", {"T": [["name", "a"], ["children", [{"T": []}]]]}]]}),
        ("non-string-attribute", {"T": [["root", {"T": [["name", "a"], ["attrs", {"T": [["k", {"i": "1"}]]}]]}]]}),
        ("non-string-name", {"T": [["root", {"T": [["name", {"i": "1"}]]}]]}),
        ("attrs-not-a-tuple", {"T": [["root", {"T": [["name", "a"], ["attrs", ["x"]]]}]]}),
        ("children-not-a-list", {"T": [["root", {"T": [["name", "a"], ["children", "x"]]}]]}),
        ("root-null", {"T": [["root", None]]}),
    ]
    return r.choice(kinds)


# ------------------------------------------------------------------------------------------ observed tree

def parse_xml(data):
    """-> model tree with the same shape as the generator's models"""
    nsq = []
    decls = {}
    order = []
    try:
        for ev, x in ET.iterparse(io.BytesIO(data), events=("start", "start-ns")):
            if ev == "start-ns":
                nsq.append((x[0] or "", x[1]))
            else:
                decls[id(x)] = list(nsq)
                nsq = []
                order.append(x)
    except ET.ParseError as e:
        raise ValueError("not well-formed: %s" % e)
    if not order:
        raise ValueError("no root element")
    root = order[0]

    def conv(el):
        ch = []
        if el.text:
            ch.append(("t", el.text))
        for c in el:
            ch.append(conv(c))
            if c.tail:
                ch.append(("t", c.tail))
        d = decls.get(id(el), [])
        return ("e", el.tag, dict(el.attrib), d, ch)

    return conv(root)


def norm_children(ch):
    out = []
    for c in ch:
        if c[0] == "t":
            if out and out[-1][0] == "t":
                out[-1] = ("t", out[-1][1] + c[1])
            else:
                out.append(c)
        else:
            out.append(c)
    return [c for c in out if not (c[0] == "t" and c[1].strip(" \t\r\n") == "")]


def text_class(a, b):
    if "\r" in a:
        return "carriage-return"
    if "\t" in a:
        return "tab"
    if "\n" in a:
        return "newline"
    if a.strip(" \t\r\n") == b.strip(" \t\r\n"):
        return "surrounding-whitespace"
    return "content"


def compare(exp, got, path="/", inscope=None, history=frozenset()):
    """-> list of (kind, detail): every difference (a known defect must not hide another one)"""
    out = []
    inscope = dict(inscope or {})
    outer_history = history
    if got[0] == "e":
        for p, u in got[3]:
            inscope[p] = u
        history = history | frozenset((p, u) for p, u in got[3])
    if exp[0] != got[0]:
        return [("node-kind", {"path": path, "expected": exp[0], "got": got[0]})]
    if exp[0] == "t":
        if exp[1] != got[1]:
            out.append(("text:" + text_class(exp[1], got[1]), {"path": path, "expected": exp[1][:80], "got": got[1][:80]}))
        return out
    _, q, attrs, nsdecl, children = exp
    _, gq, gattrs, gdecls, gchildren = got
    dropped = nsdecl is not None and tuple(nsdecl) in outer_history and tuple(nsdecl) not in [tuple(d) for d in gdecls] \
        and inscope.get(nsdecl[0]) != nsdecl[1]
    if q != gq:
        if dropped and q.split("}")[-1] == gq.split("}")[-1]:
            out.append(("element-name:redeclaration-of-shadowed-outer-binding-dropped", {"path": path, "expected": q, "got": gq}))
        elif q.split("}")[-1] == gq.split("}")[-1] and any(k.startswith("element-name:redecl") or k.startswith("namespace-declaration:redecl") for k, _ in PENDING):
            out.append(("element-name:inherits-from-dropped-redeclaration", {"path": path, "expected": q, "got": gq}))
        else:
            out.append(("element-name", {"path": path, "expected": q, "got": gq}))
    if set(attrs) != set(gattrs):
        out.append(("attribute-set", {"path": path, "expected": sorted(attrs), "got": sorted(gattrs)}))
    for k in attrs:
        if k in gattrs and attrs[k] != gattrs[k]:
            out.append(("attribute-value:" + text_class(attrs[k], gattrs[k]), {"path": path, "attr": k, "expected": attrs[k][:80], "got": gattrs[k][:80]}))
    if nsdecl is not None and inscope.get(nsdecl[0]) != nsdecl[1]:
        out.append(("namespace-declaration:redeclaration-of-shadowed-outer-binding-dropped" if dropped else "namespace-declaration",
                    {"path": path, "expected": nsdecl, "got": gdecls, "in_scope": inscope}))
    a, b = norm_children(children), norm_children(gchildren)
    if len(a) != len(b):
        out.append(("child-count", {"path": path, "expected": [c[0] + ":" + (c[1][:20]) for c in a], "got": [c[0] + ":" + (c[1][:20]) for c in b]}))
        return out
    PENDING.extend(out)
    for i, (x, y) in enumerate(zip(a, b)):
        out.extend(compare(x, y, "%s%s[%d]/" % (path, q.split("}")[-1], i), inscope, history))
    return out


PENDING = []


def nontrivial(model):
    n = [0]
    hard = [False]

    def w(m):
        if m[0] == "e":
            n[0] += 1
            for v in m[2].values():
                if any(c in v for c in "<>&'\"\t\r\n"):
                    hard[0] = True
            for c in m[4]:
                w(c)
        elif any(c in m[1] for c in "<>&]"):
            hard[0] = True
    w(model)
    return n[0] >= 2 or hard[0]


def judge(probe, v, model, res, route="convert-request"):
    witness = {"value": v, "route": route}
    rr = probe.safe_call({"op": "convert", "format": "xml", "value": v})
    if "panic" in rr or "crash" in rr or "hang" in rr or "inconclusive" in rr:
        res.count("crash-left-to-C04")
        return
    if not rr.get("ok"):
        enc = [x[1] for x in v["T"] if x[0] == "encoding"]
        if enc and isinstance(enc[0], str) and enc[0].lower() != "utf-8":
            res.count("declaration-with-another-encoding-rejected")
            return
        res.violation(["well-formed-document-rejected", cls(rr.get("err", ""))], witness, {"err": rr.get("err", "")[:200]})
        return
    data = core.b64d(rr["b64"])
    judge_bytes(data, model, res, witness)


def judge_bytes(data, model, res, witness):
    try:
        got = parse_xml(data)
    except ValueError as e:
        res.violation(["output-not-well-formed", cls(str(e))], witness, {"output": data.decode("utf-8", "replace")[:500], "error": str(e)[:200]})
        return
    del PENDING[:]
    ds = compare(model, got)
    del PENDING[:]
    if ds:
        seen = set()
        for k, det in ds:
            if k in seen:
                continue
            seen.add(k)
            res.violation(["tree-differs", k], witness, dict(det, output=data.decode("utf-8", "replace")[:500]))
        return
    res.count("roundtrip-ok")


def cls(m):
    import re
    return re.sub(r"[0-9]+", "N", m)[:40]


def to_expr(v):
    from .c03 import to_expr as te
    return te(v)


def task(args):
    seed, idx, count = args
    r = core.rng_for(seed, "c12", idx)
    res = core.Result()
    probe = core.Probe()
    for c in range(count):
        if r.random() < 0.12:
            kind, v = malformed(r)
            res.case(("mal", json.dumps(v, sort_keys=True)), nontrivial=True)
            rr = probe.safe_call({"op": "convert", "format": "xml", "value": v})
            if "panic" in rr or "crash" in rr or "hang" in rr:
                res.count("crash-left-to-C04")
            elif rr.get("ok"):
                res.violation(["malformed-document-produced-output", kind], {"value": v},
                              {"output": core.b64d(rr["b64"]).decode("utf-8", "replace")[:300]})
            else:
                res.count("malformed-rejected:" + kind)
            continue
        v, model = gen_doc(r)
        res.case(json.dumps(v, sort_keys=True), nontrivial=nontrivial(model))
        judge(probe, v, model, res)
        if c % 25 == 0:
            # through a program and the real CLI
            from .c03 import lit_ok
            if lit_ok(v):
                with core.TempProject("c12") as tp:
                    tp.write("f.ucg", gen.to_text([("let", "doc", to_expr(v)), ("out", "xml", ("sym", "doc"))]))
                    ev = core.run_cli(["build", "f.ucg"], tp.root)
                    try:
                        data = open(tp.path("f.xml"), "rb").read()
                    except OSError:
                        data = None
                    enc = [x[1] for x in v["T"] if x[0] == "encoding"]
                    if (ev["exit"] != 0 or data is None) and enc and isinstance(enc[0], str) and enc[0].lower() != "utf-8":
                        res.count("declaration-with-another-encoding-rejected")
                    elif ev["exit"] != 0 or data is None:
                        res.violation(["out-xml-failed"], {"value": v, "route": "out-statement"}, {"stderr": ev["stderr"][:300]})
                    else:
                        judge_bytes(data, model, res, {"value": v, "route": "out-statement"})
                        res.count("cli-out-xml")
        if c < 1 and idx < 2:
            res.sample({"value": v})
    probe.stop()
    return res


def task_std(args):
    """documents built with the std/xml.ucg helpers"""
    seed, idx, count = args
    r = core.rng_for(seed, "c12s", idx)
    res = core.Result()
    probe = core.Probe()
    for c in range(count):
        t1, t2, a1 = rtext(r), rtext(r), rtext(r)
        text = ('let xml = import "std/xml.ucg";\n'
                'let inner = xml.tag{name = "b", children = [%s]};\n'
                'let top = xml.tag{name = "a", attrs = {k = %s}, children = [inner, %s], ns = "urn:x"};\n'
                'let doc = xml.doc(top);\nlet s = convert xml doc;\n') % (gen.quote(t1), gen.quote(a1), gen.quote(t2))
        model = ("e", "{urn:x}a", {"k": a1}, ("", "urn:x"), [("e", "{urn:x}b", {}, None, [("t", t1)]), ("t", t2)])
        res.case(text, nontrivial=True)
        rr = probe.safe_call({"op": "eval", "text": text, "reuse_max": 200})
        if not rr.get("ok"):
            if "panic" in rr or "crash" in rr or "hang" in rr:
                res.count("crash-left-to-C04")
            else:
                res.violation(["std-xml-helpers-fail", cls(rr.get("err", ""))], {"text": text}, {"err": rr.get("err", "")[:300]})
            continue
        s = dict((k, v) for k, v in rr["val"]["T"]).get("s")
        judge_bytes(s.encode("utf-8"), model, res, {"text": text, "route": "std/xml.ucg"})
        res.count("std-xml-docs")
    probe.stop()
    return res


def dispatch(task_):
    k, a = task_
    return task(a) if k == "gen" else task_std(a)


def run(tier, seed, t0):
    q = tier == "quick"
    n = 6000 if q else 120000
    sh = 32 if q else 128
    tasks = [("gen", (seed, i, n // sh)) for i in range(sh)] + [("std", (seed, i, (200 if q else 3000) // 8)) for i in range(8)]
    res = core.run_parallel(dispatch, tasks)
    return core.finish("C12", tier, seed, res, RULE, t0, replay_known=replay_known,
                       assumptions=["expat (xml.etree) is the independent parser; an XML 1.1 declaration is read with 1.0 rules",
                                    "characters XML 1.0 cannot carry (U+0000-0008 etc.) are not generated; whitespace-only text segments are ignored on both sides (the writer indents)"])


def model_of(v):
    """recompute the model of a stored document value"""
    def node(n, scope):
        if isinstance(n, str):
            return ("t", n)
        f = dict((k, x) for k, x in n["T"])
        if "name" not in f:
            return ("t", f.get("text", ""))
        scope = dict(scope)
        nsdecl = None
        ns = f.get("ns")
        if isinstance(ns, str):
            scope[""] = ns
            nsdecl = ("", ns)
        elif isinstance(ns, dict):
            nf = dict((k, x) for k, x in ns["T"])
            if nf.get("prefix") and nf.get("uri"):
                scope[nf["prefix"]] = nf["uri"]
                nsdecl = (nf["prefix"], nf["uri"])
        name = f["name"]
        if ":" in name:
            p, local = name.split(":", 1)
            q = "{%s}%s" % (scope.get(p, "?"), local)
        else:
            q = ("{%s}%s" % (scope[""], name)) if scope.get("") else name
        attrs = {}
        if isinstance(f.get("attrs"), dict):
            attrs = {k: x for k, x in f["attrs"]["T"] if x is not None}
        ch = [node(c, scope) for c in (f.get("children") or [])]
        return ("e", q, attrs, nsdecl, ch)
    f = dict((k, x) for k, x in v["T"])
    return node(f["root"], {})


def check_witness(w):
    res = core.Result()
    probe = core.Probe()
    try:
        v = w["value"]
        if w.get("malformed"):
            rr = probe.safe_call({"op": "convert", "format": "xml", "value": v})
            if rr.get("ok"):
                res.violation(["malformed-document-produced-output", w["malformed"]], w, {})
        else:
            judge(probe, v, model_of(v), res)
    finally:
        probe.stop()
    return res


def replay_known(entry):
    w = entry.get("witness", {})
    if "value" not in w:
        return None
    res = check_witness(w)
    if entry.get("status") == "known":
        return any(v["signature"] == entry["signature"] for v in res.violations)
    return bool(res.violations)


def replay(path, tier, seed):
    d = json.load(open(path))
    w = d["witness"]
    if d["signature"][0] == "malformed-document-produced-output":
        w = dict(w, malformed=d["signature"][1])
    res = check_witness(w)
    if res.violations:
        print("VIOLATION property=C12 replay=%s" % path)
        print(json.dumps(res.violations[0], indent=1)[:1500])
        return 1
    print("replay: no violation")
    return 0
