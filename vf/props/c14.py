"""C14 - `out` writes one artifact: right name, same bytes as `convert`, all or nothing."""
import hashlib
import json
import os
import re

from .. import core, gen, values
from . import c03

RULE = ("every registered converter (list and extensions read from `ucg converters`) x generated values, convertible and "
        "not (NULL in toml, non-tuple for flags/exec/xml/toml, malformed xml and exec tuples, non-finite floats in json, "
        "constraint values), written as `let v = ..; out <fmt> v;` and built by the real `ucg build` in a scratch "
        "directory with and without a pre-existing artifact, as a fault sequence good build -> bad build -> good build; "
        "files with 0, 1 and 2 out statements. Oracle: directory snapshot (names, sizes, sha256) before/after: a "
        "successful build adds or replaces exactly <file>.<ext>; its bytes equal the string `convert <fmt> v` evaluates "
        "to (probe); a failed build exits 1 and leaves the directory exactly as it was. distinct = distinct (format, "
        "value, history); non-trivial = a failing build or a build over a pre-existing artifact.")
RULE += (" " + 'Also: 13 source places (names with dots, blanks, a leading dot, non-ASCII; subdirectories; other working directories; absolute paths); values whose conversion succeeds with zero bytes (fresh and over an earlier artifact); outputs of 20 KiB .. 100 KiB, first larger then smaller and the other way round.')
RULE += (" " + 'Two-out files carry one of 15 kinds of evaluation between the two statements (function call, module instantiation, map/filter/reduce, template expression, import, select, assert, convert, constrained let) and second values computed by a call or a select.')
RULE += (" " + 'Scenario imported-file-with-out: the file with the out statement is also imported by another built file of the same invocation, in both orders and listed twice.')
RULE += (" " + 'Round 8: 6 of 22 places name the source on the command line through a symbolic link under another name and/or in another directory; the artifact is named like the file that was built, the link.')


def converters_from_cli():
    ev = core.run_cli(["converters"], core.SCRATCH if os.path.isdir(core.SCRATCH) else "/")
    if ev["exit"] != 0:
        raise core.HarnessBroken("`ucg converters` failed: %s" % ev["stderr"][:200])
    out = {}
    cur = None
    for line in ev["stdout"].split("\n"):
        m = re.match(r"^\* (\S+)", line)
        if m:
            cur = m.group(1)
        m = re.match(r"^Output Extension: `\.(\S+)`", line)
        if m and cur:
            out[cur] = m.group(1)
    if len(out) < 6:
        raise core.HarnessBroken("could not read the converter list")
    return out


GOOD = {
    "json": lambda r: values.rand_value(r, 2, nonfinite=0.0, top_tuple=True),
    "yaml": lambda r: values.rand_value(r, 2, nonfinite=0.0, top_tuple=True),
    "yamlmulti": lambda r: [values.rand_value(r, 1, nonfinite=0.0, top_tuple=True) for _ in range(r.randint(1, 3))],
    "toml": lambda r: {"T": [["a", {"i": str(r.randint(0, 9))}], ["s", values.rand_string(r)], ["t", {"T": [["b", True]]}]]},
    "env": lambda r: {"T": [["A", values.rand_string(r)], ["B", {"i": "3"}], ["C", True]]},
    "flags": lambda r: {"T": [["name", values.rand_string(r)], ["n", {"i": "1"}], ["l", ["x", "y"]], ["flag", None]]},
    "exec": lambda r: {"T": [["command", "echo"], ["args", [values.rand_string(r), {"T": [["k", "v"]]}]], ["env", {"T": [["E", values.rand_string(r)]]}]]},
    "xml": lambda r: {"T": [["root", {"T": [["name", "a"], ["attrs", {"T": [["k", values.rand_string(r, 0.2).replace("\x00", "") or "v"]]}],
                                              ["children", ["text", {"T": [["name", "b"]]}]]]}]]},
}

# source text of values that cannot be converted (some cannot be written as tagged values)
BAD = {
    "json": ["{a = 1.0 / 0.0}", "{a = 0.0 / 0.0}", "[1, 0.0 - 1.0 / 0.0]"],
    "yaml": [],
    "yamlmulti": [],
    "toml": ["{a = NULL}", "{a = {b = [1, NULL]}}", "[1, 2]", "\"text\"", "1", "{x = \"first\", a = [{b = NULL}]}"],
    "env": [],
    "flags": ["[1, 2]", "\"text\"", "1", "NULL"],
    "exec": ["{}", "{command = 1}", "{args = [\"a\"]}", "{command = \"c\", args = [1]}", "{command = \"c\", env = {E = 1}}", "[1]", "\"text\"",
             "{command = \"c\", args = [\"ok\", \"fine\", 7]}", "{command = \"c\", a = 1, b = 2, c = 3}"],
    "xml": ["{}", "{root = \"text\"}", "{root = {name = \"a\", text = \"t\"}}", "{version = \"9\", root = {name = \"a\"}}", "[1]",
            "{root = {name = \"a\", children = [\"ok\", {name = \"b\"}, 1]}}", "{root = {name = \"a\", attrs = {k = 1}}}",
            "{root = {name = \"a\", children = [{name = \"b\", children = [{name = \"c\", text = \"both\"}]}]}}"],
}
# values whose conversion SUCCEEDS with zero bytes: the artifact must still be created (and replace an earlier one)
EMPTY_OUT = {"env": ["{}", "{nested = {a = 1}, items = [1, 2]}", "NULL", "[1]", "{a = NULL}"], "flags": ["{}"], "yamlmulti": ["[]"]}
# values whose conversion is far larger than any writer's buffer (the artifact must be complete, to the last byte)
BIGL = "map(func (i) => \"item-@\" %% (i), 0:%d)"
BIGS = "reduce(func (acc, i) => acc + \"0123456789\", \"\", 1:%d)"
BIG_OUT = {
    "json": "{items = " + BIGL + ", s = " + BIGS + "}", "yaml": "{items = " + BIGL + ", s = " + BIGS + "}", "yamlmulti": BIGL, "toml": "{items = " + BIGL + ", s = " + BIGS + "}",
    "env": "{A = " + BIGS + ", B = 1, C = " + BIGS + "}", "flags": "{l = " + BIGL + ", s = " + BIGS + "}",
    "exec": "{command = \"echo\", args = " + BIGL + ", env = {E = " + BIGS + "}}", "xml": "{root = {name = \"a\", children = " + BIGL + ", attrs = {k = " + BIGS + "}}}",
}
CONSTRAINT_PROG = "constraint c = in 1..5;\nout %s {a = c};\n"


def snapshot(root):
    return core.snapshot_dir(root)


def expr_text(v):
    pr = gen.Printer()
    pr.expr(c03.to_expr(v), True)
    return gen.join_canonical(pr.toks)


def expected_bytes(probe, fmt, vtext):
    rr = probe.safe_call({"op": "eval", "text": "let v = %s;\nlet s = convert %s v;\n" % (vtext, fmt), "reuse_max": 100})
    if rr.get("ok"):
        return dict((k, x) for k, x in rr["val"]["T"]).get("s").encode("utf-8"), None
    if "panic" in rr or "crash" in rr or "hang" in rr:
        return None, "crash"
    return None, rr.get("err", "")


PLACES = [("f.ucg", ".", False)] * 4 + [
    ("my.conf.ucg", ".", False), ("sp ace.ucg", ".", False), (".hidden.ucg", ".", False), ("a-b_c.v2.ucg", ".", False),
    ("sub/inner.ucg", ".", False), ("sub/inner.ucg", "sub", False), ("sub/inner.ucg", "other", False), ("sub/deep/x.y.ucg", "sub", False),
    ("f.ucg", ".", True), ("sub/inner.ucg", "other", True), ("\u00fcn\u00ef.ucg", ".", False), ("f.ucg", "other", False),
    # the file named on the command line is a symbolic link to the source, under another name and/or in another directory
    # (one template, one link per deployment): the artifact is named like the file that was built, the link
    ("templates/service.ucg", ".", False, "prod.ucg"), ("f.ucg", ".", False, "g.ucg"), ("f.ucg", ".", False, "links/alias.ucg"),
    ("sub/inner.ucg", "other", True, "other/l.ucg"), ("sub/inner.ucg", "sub", False, "top.ucg"), ("templates/service.ucg", "other", False, "deploy/staging.ucg"),
]


class Place:
    """where the source file lives (relative to the project root), the cwd of the build, and how the file is named on argv"""

    def __init__(self, src="f.ucg", cwd=".", absolute=False, link=None):
        self.src, self.cwd, self.absolute, self.link = src, cwd, absolute, link

    def named(self):
        """the file named on the command line: the source, or the symbolic link to it"""
        return self.link or self.src

    def art(self, ext):
        assert self.named().endswith(".ucg")
        return self.named()[:-4] + "." + ext

    def make_link(self, tp):
        if self.link and not os.path.lexists(tp.path(self.link)):
            os.makedirs(os.path.dirname(tp.path(self.link)) or tp.root, exist_ok=True)
            os.makedirs(os.path.dirname(tp.path(self.src)) or tp.root, exist_ok=True)
            os.symlink(os.path.relpath(tp.path(self.src), os.path.dirname(tp.path(self.link)) or tp.root), tp.path(self.link))

    def as_json(self):
        return [self.src, self.cwd, self.absolute] + ([self.link] if self.link else [])


def build(tp, pl):
    cwd = os.path.normpath(os.path.join(tp.root, pl.cwd))
    os.makedirs(cwd, exist_ok=True)
    pl.make_link(tp)
    arg = tp.path(pl.named()) if pl.absolute else os.path.relpath(tp.path(pl.named()), cwd)
    return core.run_cli(["build", arg], cwd)


def judge_good(res, probe, tp, pl, fmt, ext, vtext, history, witness):
    before = snapshot(tp.root)
    ev = build(tp, pl)
    after = snapshot(tp.root)
    art = pl.art(ext)
    exp, err = expected_bytes(probe, fmt, vtext)
    if exp is None:
        res.count("expected-bytes-unavailable")
        return False
    if ev["exit"] != 0:
        res.violation(["convertible-value-build-fails", fmt], witness, {"stderr": ev["stderr"][:300], "history": history})
        return False
    changed = sorted(k for k in set(before) | set(after) if before.get(k) != after.get(k))
    wrong = [k for k in changed if k != art]
    if wrong:
        res.violation(["unexpected-files-touched", fmt], witness, {"changed": changed, "history": history})
        return False
    if art not in after:
        res.violation(["artifact-missing", fmt], witness, {"after": sorted(after), "history": history})
        return False
    data = open(tp.path(art), "rb").read()
    if data != exp:
        res.violation(["artifact-differs-from-convert", fmt], witness,
                      {"artifact": data.decode("utf-8", "replace")[:300], "convert": exp.decode("utf-8", "replace")[:300], "history": history})
        return False
    res.count("good-build-ok:" + fmt)
    return True


def judge_bad(res, tp, pl, fmt, ext, history, witness, kind):
    before = snapshot(tp.root)
    ev = build(tp, pl)
    after = snapshot(tp.root)
    art = pl.art(ext)
    if ev.get("hang") or ev["signal"] or ev["exit"] not in (0, 1):
        res.count("crash-left-to-C04")
        return
    if ev["exit"] == 0:
        res.violation(["unconvertible-value-build-succeeds", fmt, kind], witness,
                      {"history": history, "artifact": open(tp.path(art), "rb").read().decode("utf-8", "replace")[:200] if art in after else None})
        return
    if before != after:
        changed = sorted(k for k in set(before) | set(after) if before.get(k) != after.get(k))
        what = []
        for k in changed:
            if k not in before:
                what.append("new-empty-artifact" if after[k][0] == 0 else "new-partial-artifact")
            elif k not in after:
                what.append("artifact-deleted")
            else:
                what.append("previous-artifact-truncated" if after[k][0] == 0 else "previous-artifact-overwritten")
        res.violation(["failed-build-changes-directory", sorted(set(what))[0]], witness,
                      {"history": history, "changed": changed, "before": {k: before.get(k) for k in changed}, "after": {k: after.get(k) for k in changed},
                       "stderr": ev["stderr"][:200]})
        return
    res.count("bad-build-leaves-directory-alone:" + fmt)


# what may stand between the two out statements of a file, and how the second one's value is computed: every one of
# these evaluates something in between (a call, a module, a callback, a template expression, an import) and none
# of them makes the second out statement legal
TWO_OUT_PRELUDE = ("let c14inc = func (x) => x + 1;\nlet c14id = func (x) => x;\n"
                   "let c14mod = module {a = 1} => (r) { let r = mod.a + 1; };\n")
BETWEEN = ["", "let y1 = 3;\n", "let y2 = c14inc(1);\n", "let y3 = c14mod{a = 2};\n",
           "let y4 = map(func (x) => x + 1, [1, 2]);\n", "let y5 = filter(func (x) => x > 1, [1, 2]);\n",
           "let y6 = reduce(func (acc, x) => acc + x, 0, [1, 2]);\n", "let y7 = \"@\" % (1 + 1);\n",
           "let y8 = \"@{item.a}\" % {a = 1};\n", "let y9 = import \"c14lib.ucg\";\n",
           "let y10 = select (true, 0) => {true = c14inc(1)};\n", "assert {ok = c14inc(1) == 2, desc = \"d\"};\n",
           "let y11 = import \"std/lists.ucg\";\nlet y12 = y11.len([1, 2]);\n",
           "let y13 = convert json c14id({a = 1});\n", "let y14 :: 1 = c14inc(1);\n"]
SECOND_VALUE = ["%s", "%s", "c14id(%s)", "select (c14inc(1) == 2, 0) => {true = %s}"]


def judge_two(res, tp, pl, prog, witness):
    tp.write(pl.src, prog)
    ev = build(tp, pl)
    if ev["exit"] == 0:
        res.violation(["second-out-accepted"], witness, {"stdout": ev["stdout"][:200]})
    elif ev["exit"] == 1:
        if "one output per file" in ev["stdout"] + ev["stderr"]:
            res.count("second-out-rejected")
        else:
            res.count("two-out-file-fails-otherwise")
            res.notes.append("two-out file failed with another message: %s" % (ev["stdout"] + ev["stderr"])[-160:])
    else:
        res.violation(["two-out-build-crashes"], witness, {"exit": ev["exit"], "stderr": ev["stderr"][-300:]})


def task(args):
    seed, idx, count = args
    r = core.rng_for(seed, "c14", idx)
    res = core.Result()
    probe = core.Probe()
    convs = converters_from_cli()
    fmts = sorted(convs)
    unknown = [f for f in fmts if f not in GOOD]
    if unknown:
        res.notes.append("converters without a generator: %s" % unknown)
    for c in range(count):
        fmt = fmts[(c + idx) % len(fmts)]
        if fmt not in GOOD:
            continue
        ext = convs[fmt]
        good_v = GOOD[fmt](r)
        if not c03.lit_ok(good_v):
            continue
        good_t = expr_text(good_v)
        bads = list(BAD.get(fmt, []))
        with core.TempProject("c14") as tp:
            scenario = r.choice(["fresh-good", "good-bad-good", "bad-first", "constraint", "zero-out", "two-outs", "good-good", "imported-file-with-out"])
            if fmt in EMPTY_OUT and r.random() < 0.35:
                scenario = r.choice(["empty-fresh", "good-then-empty"])
            if r.random() < 0.06:
                scenario = "big-output"
            pl = Place(*r.choice(PLACES))
            pl.make_link(tp)    # before any snapshot: the link itself is not something the build made
            os.makedirs(tp.path("other"), exist_ok=True)
            witness = {"format": fmt, "good": good_t, "scenario": scenario, "place": pl.as_json()}
            res.count("place:%s@%s%s%s" % (pl.src, pl.cwd, ":abs" if pl.absolute else "", (":via-symlink-" + pl.link) if pl.link else ""))
            if scenario in ("good-bad-good", "bad-first") and not bads:
                scenario = "constraint"
                witness["scenario"] = scenario
            res.case((fmt, good_t, scenario), nontrivial=(scenario != "fresh-good"))
            res.count("scenario:" + scenario)
            if scenario == "fresh-good":
                tp.write(pl.src, "let v = %s;\nout %s v;\n" % (good_t, fmt))
                judge_good(res, probe, tp, pl, fmt, ext, good_t, ["good"], witness)
            elif scenario == "big-output":
                n1, n2 = r.choice([(3000, 700), (1200, 2500), (4096, 4095)])
                bt = BIG_OUT[fmt] % ((n1, n1) if BIG_OUT[fmt].count("%d") == 2 else ((n1,) if BIG_OUT[fmt].count("%d") == 1 else (n1, n1, n1)))
                bt2 = BIG_OUT[fmt] % ((n2, n2) if BIG_OUT[fmt].count("%d") == 2 else ((n2,) if BIG_OUT[fmt].count("%d") == 1 else (n2, n2, n2)))
                witness["good"], witness["good2"] = bt, bt2
                tp.write(pl.src, "let v = %s;\nout %s v;\n" % (bt, fmt))
                if judge_good(res, probe, tp, pl, fmt, ext, bt, ["big"], witness):
                    tp.write(pl.src, "let v = %s;\nout %s v;\n" % (bt2, fmt))
                    judge_good(res, probe, tp, pl, fmt, ext, bt2, ["big", "big2"], witness)
            elif scenario == "empty-fresh":
                et = r.choice(EMPTY_OUT[fmt])
                witness["good"] = et
                tp.write(pl.src, "let v = %s;\nout %s v;\n" % (et, fmt))
                judge_good(res, probe, tp, pl, fmt, ext, et, ["empty"], witness)
            elif scenario == "good-then-empty":
                et = r.choice(EMPTY_OUT[fmt])
                witness["good2"] = et
                tp.write(pl.src, "let v = %s;\nout %s v;\n" % (good_t, fmt))
                if judge_good(res, probe, tp, pl, fmt, ext, good_t, ["good"], witness):
                    tp.write(pl.src, "let v = %s;\nout %s v;\n" % (et, fmt))
                    judge_good(res, probe, tp, pl, fmt, ext, et, ["good", "empty"], witness)
            elif scenario == "good-good":
                tp.write(pl.src, "let v = %s;\nout %s v;\n" % (good_t, fmt))
                if judge_good(res, probe, tp, pl, fmt, ext, good_t, ["good"], witness):
                    v2 = expr_text(GOOD[fmt](r)) if c03.lit_ok(GOOD[fmt](r)) else good_t
                    tp.write(pl.src, "let v = %s;\nout %s v;\n" % (v2, fmt))
                    witness["good2"] = v2
                    judge_good(res, probe, tp, pl, fmt, ext, v2, ["good", "good"], witness)
            elif scenario == "good-bad-good":
                bad_t = r.choice(bads)
                witness["bad"] = bad_t
                tp.write(pl.src, "let v = %s;\nout %s v;\n" % (good_t, fmt))
                if judge_good(res, probe, tp, pl, fmt, ext, good_t, ["good"], witness):
                    tp.write(pl.src, "let v = %s;\nout %s v;\n" % (bad_t, fmt))
                    judge_bad(res, tp, pl, fmt, ext, ["good", "bad"], witness, "literal")
                    tp.write(pl.src, "let v = %s;\nout %s v;\n" % (good_t, fmt))
                    judge_good(res, probe, tp, pl, fmt, ext, good_t, ["good", "bad", "good"], witness)
            elif scenario == "bad-first":
                bad_t = r.choice(bads)
                witness["bad"] = bad_t
                tp.write(pl.src, "let v = %s;\nout %s v;\n" % (bad_t, fmt))
                judge_bad(res, tp, pl, fmt, ext, ["bad"], witness, "literal")
            elif scenario == "constraint":
                witness["bad"] = "constraint value"
                if r.random() < 0.5:
                    tp.write(pl.src, "let v = %s;\nout %s v;\n" % (good_t, fmt))
                    judge_good(res, probe, tp, pl, fmt, ext, good_t, ["good"], witness)
                tp.write(pl.src, CONSTRAINT_PROG % fmt)
                if fmt in ("json", "yaml", "yamlmulti", "toml"):
                    judge_bad(res, tp, pl, fmt, ext, ["?", "constraint"], witness, "constraint")
            elif scenario == "zero-out":
                tp.write(pl.src, "let v = %s;\n" % good_t)
                before = snapshot(tp.root)
                ev = build(tp, pl)
                after = snapshot(tp.root)
                if ev["exit"] != 0 or before != after:
                    res.violation(["file-without-out-changes-directory-or-fails"], witness, {"exit": ev["exit"], "new": sorted(set(after) - set(before))})
                else:
                    res.count("zero-out-ok")
            elif scenario == "imported-file-with-out":
                # the file with the out statement is also imported by another file of the same invocation, in both orders:
                # its artifact is the same single artifact, and the importer's own out works too
                d = os.path.dirname(pl.src)
                libname = os.path.join(d, "c14outlib.ucg")
                mainname = os.path.join(d, "c14main.ucg")
                tp.write(libname, "let v = %s;\nlet n = 1;\nout %s v;\n" % (good_t, fmt))
                tp.write(mainname, "let l = import \"c14outlib.ucg\";\nout json {n = l.n};\n")
                exp, _experr = expected_bytes(probe, fmt, good_t)
                for order in ((libname, mainname), (mainname, libname), (libname, mainname, libname)):
                    for f in os.listdir(tp.path(d) if d else tp.root):
                        if f.startswith("c14") and not f.endswith(".ucg"):
                            os.remove(os.path.join(tp.path(d) if d else tp.root, f))
                    cwd = os.path.normpath(os.path.join(tp.root, pl.cwd))
                    os.makedirs(cwd, exist_ok=True)
                    args = [tp.path(x) if pl.absolute else os.path.relpath(tp.path(x), cwd) for x in order]
                    ev = core.run_cli(["build"] + args, cwd)
                    w3 = dict(witness, order=[os.path.basename(x) for x in order])
                    art = tp.path(os.path.join(d, "c14outlib." + ext))
                    mart = tp.path(os.path.join(d, "c14main.json"))
                    if ev["exit"] != 0:
                        res.violation(["imported-file-with-out", "build-fails", "importer-" + ("first" if order[0] == mainname else "later")], w3,
                                      {"output": (ev["stdout"] + ev["stderr"])[-300:]})
                        break
                    if exp is not None and (not os.path.exists(art) or open(art, "rb").read() != exp):
                        res.violation(["imported-file-with-out", "artifact-differs-from-convert"], w3, {"exists": os.path.exists(art)})
                        break
                    if not os.path.exists(mart):
                        res.violation(["imported-file-with-out", "importer-artifact-missing"], w3, {})
                        break
                    res.count("imported-file-with-out-ok")
            elif scenario == "two-outs":
                other = r.choice([f for f in fmts if f in GOOD])
                ov = GOOD[other](r)
                other_t = expr_text(ov) if c03.lit_ok(ov) else "{a = 1}"
                between = r.choice(BETWEEN)
                second = r.choice(SECOND_VALUE) % other_t
                tp.write(os.path.join(os.path.dirname(pl.src), "c14lib.ucg"), "let w = 1;\n")
                prog = TWO_OUT_PRELUDE + "let v = %s;\nout %s v;\n%sout %s %s;\n" % (good_t, fmt, between, other, second)
                witness["program"] = prog
                res.count("two-outs-between:" + (between.split("=")[0].strip() or "nothing"))
                judge_two(res, tp, pl, prog, witness)
        if c < 1 and idx < 2:
            res.sample(witness)
    probe.stop()
    return res


def run(tier, seed, t0):
    q = tier == "quick"
    n = 1600 if q else 20000
    sh = 32 if q else 64
    tasks = [(seed, i, n // sh) for i in range(sh)]
    res = core.run_parallel(task, tasks)
    return core.finish("C14", tier, seed, res, RULE, t0, replay_known=replay_known,
                       extra={"converters": converters_from_cli()},
                       assumptions=["the expected bytes are the UTF-8 encoding of the string `convert <fmt> v` evaluates to in the probe",
                                    "for a file with two out statements only the failure is judged, not what the first out left behind"])


def check_witness(w):
    res = core.Result()
    probe = core.Probe()
    convs = converters_from_cli()
    try:
        fmt = w["format"]
        ext = convs[fmt]
        pl = Place(*w.get("place", ["f.ucg", ".", False]))
        if w.get("program"):
            with core.TempProject("c14r") as tp:
                os.makedirs(tp.path("other"), exist_ok=True)
                pl.make_link(tp)
                tp.write(os.path.join(os.path.dirname(pl.src), "c14lib.ucg"), "let w = 1;\n")
                judge_two(res, tp, pl, w["program"], w)
            return res
        with core.TempProject("c14r") as tp:
            os.makedirs(tp.path("other"), exist_ok=True)
            pl.make_link(tp)
            tp.write(pl.src, "let v = %s;\nout %s v;\n" % (w["good"], fmt))
            ok = judge_good(res, probe, tp, pl, fmt, ext, w["good"], ["good"], w)
            if ok and w.get("good2"):
                tp.write(pl.src, "let v = %s;\nout %s v;\n" % (w["good2"], fmt))
                judge_good(res, probe, tp, pl, fmt, ext, w["good2"], ["good", "good"], w)
            if w.get("bad") and w["bad"] != "constraint value":
                tp.write(pl.src, "let v = %s;\nout %s v;\n" % (w["bad"], fmt))
                judge_bad(res, tp, pl, fmt, ext, ["good", "bad"], w, "literal")
            elif w.get("bad"):
                tp.write(pl.src, CONSTRAINT_PROG % fmt)
                judge_bad(res, tp, pl, fmt, ext, ["good", "constraint"], w, "constraint")
        if w.get("bad") and w["bad"] != "constraint value":
            with core.TempProject("c14r") as tp:
                os.makedirs(tp.path("other"), exist_ok=True)
                tp.write(pl.src, "let v = %s;\nout %s v;\n" % (w["bad"], fmt))
                judge_bad(res, tp, pl, fmt, ext, ["bad"], w, "literal")
    finally:
        probe.stop()
    return res


def replay_known(entry):
    w = entry.get("witness", {})
    if "format" not in w:
        return None
    res = check_witness(w)
    if entry.get("status") == "known":
        return any(v["signature"] == entry["signature"] for v in res.violations)
    return bool(res.violations)


def replay(path, tier, seed):
    d = json.load(open(path))
    res = check_witness(d["witness"])
    if res.violations:
        print("VIOLATION property=C14 replay=%s" % path)
        print(json.dumps(res.violations[0], indent=1)[:1500])
        return 1
    print("replay: no violation")
    return 0
