"""C05 - formatting never changes meaning or loses comments (metamorphic checks on `ucg fmt`)."""
import json
import os
import re

from .. import core, gen, progs, reftok, hostile

RULE = ("inputs: generator programs under >= 3 random layouts (redundant parentheses, line breaks, LF/CRLF, "
        "indentation, trailing commas, quoted field names, comments before statements/fields/elements/operands, blank "
        "`//`), a catalogue of literal forms (zero-fraction / huge / tiny floats, ranges with step, every escape, "
        "non-ASCII text, keyword-named fields, constraints), and every .ucg file in the repository. Oracles: "
        "(1) parse(fmt(t)) == parse(t) ignoring positions and the quoting of field names; (2) the comment texts of "
        "fmt(t), read by the independent reference tokenizer, equal those of t in order; (3) fmt(fmt(t)) == fmt(t) "
        "for inputs whose comments stand on their own lines between statements; (4) `ucg fmt` / `ucg fmt -w` give "
        "the same bytes as the library path. distinct = distinct input texts; non-trivial = parses and has >= 2 "
        "statements or a comment.")
RULE += (" " + 'Also: 71 hostile field names (leading underscore, digits, dashes, dots, blanks, empty, non-ASCII letters after an ASCII one, every keyword, punctuation) in 8 positions each (tuple literal, selector, copy, select arm, module parameter, constrained field, exemplar, string), a grid of 244 float literals over 61 decimal magnitudes, one to three trailing comment groups after the last statement, comment-only files.')
RULE += (" " + "Every CLI sample is also formatted in place (`fmt -w`) and in directory mode from a loosely written source (trailing blanks, blank lines, a wide gap before the first token), so that the formatted text is shorter than the file it replaces; the file must equal the library's output.")
RULE += (" " + 'Session 4: 5 of 12 texts are also formatted at indent width 0, 1, 2, 3 or 8 (the printer takes the width as a parameter) and judged by the same three oracles at that width.')


def comments_of(text):
    try:
        toks = reftok.tokenize(text, keep_comments=True)
    except reftok.TokError:
        return None
    return [t[1].strip() for t in toks if t[0] == "COMMENT"]


def first_diff(a, b, path=()):
    """-> (path of node kinds, key, a-value, b-value) of the first difference of two JSON trees"""
    if type(a) != type(b):
        return path, None, a, b
    if isinstance(a, dict):
        k = a.get("k")
        p = path + ((k,) if k else ())
        for key in sorted(set(a) | set(b)):
            if key in ("r",):
                continue
            if key not in a or key not in b:
                return p, key, a.get(key), b.get(key)
            d = first_diff(a[key], b[key], p)
            if d:
                if d[1] is None and not isinstance(a[key], (dict, list)):
                    return p, key, a[key], b[key]
                return d
        return None
    if isinstance(a, list):
        if len(a) != len(b):
            return path, "len", len(a), len(b)
        for x, y in zip(a, b):
            d = first_diff(x, y, path)
            if d:
                return d
        return None
    if a != b:
        return path, None, a, b
    return None


def short(x, n=80):
    s = json.dumps(x, ensure_ascii=False) if not isinstance(x, str) else x
    return s[:n]


def judge(probe, text, res, label, own_line_comments=False, cli=False):
    p0 = probe.safe_call({"op": "parse", "text": text})
    if "panic" in p0 or "crash" in p0 or "hang" in p0:
        res.count("crash-left-to-C04")
        return
    if not p0.get("ok"):
        res.count("input-does-not-parse")
        return
    nst = len(p0["ast"])
    c0 = comments_of(text)
    res.case(text, nontrivial=(nst >= 2 or bool(c0)))
    res.count("label:" + label)
    f = probe.safe_call({"op": "fmt", "text": text})
    if "panic" in f or "crash" in f or "hang" in f:
        res.count("crash-left-to-C04")
        return
    if not f.get("ok"):
        res.violation(["fmt-fails", f.get("stage", "?")], {"text": text}, {"err": f.get("err", "")[:200]})
        return
    ft = f["text"]
    p1 = probe.safe_call({"op": "parse", "text": ft})
    if not p1.get("ok"):
        if "panic" in p1 or "crash" in p1 or "hang" in p1:
            res.count("crash-left-to-C04")
            return
        msg = re.sub(r"[0-9]+", "N", p1.get("err", "").split("\n")[0])
        res.violation(["fmt-output-unparsable", msg[:70]], {"text": text}, {"formatted": ft[:600], "err": p1.get("err", "")[:300]})
        return
    d = first_diff(p0["ast"], p1["ast"])
    if d:
        path, key, a, b = d
        res.violation(["fmt-changes-tree", "/".join([str(x) for x in path[-2:]]), str(key)], {"text": text},
                      {"formatted": ft[:600], "path": list(path), "key": key, "before": short(a), "after": short(b)})
        return
    res.count("tree-preserved")
    c1 = comments_of(ft)
    if c0 is not None:
        if c1 is None:
            res.violation(["fmt-output-untokenizable-by-reference"], {"text": text}, {"formatted": ft[:600]})
            return
        if c0 != c1:
            kind = "comment-lost" if len(c1) < len(c0) else ("comment-added" if len(c1) > len(c0) else
                                                              ("comment-reordered" if sorted(c0) == sorted(c1) else "comment-text-changed"))
            res.violation(["comments", kind], {"text": text}, {"formatted": ft[:600], "before": c0[:12], "after": c1[:12]})
            return
        if c0:
            res.count("comments-preserved", len(c0))
    # the printer takes the indent width as a parameter (the CLI passes 4): the same three oracles at another width, chosen by
    # the text so that a replay sees the same one.  Width 0 puts everything flush left, 1 and 3 are odd, 8 is wide.
    h = sum(text.encode("utf-8")) % 12
    if h < 5:
        w = (0, 1, 2, 3, 8)[h]
        fw = probe.safe_call({"op": "fmt", "text": text, "indent": w})
        if "panic" in fw or "crash" in fw or "hang" in fw:
            res.violation(["fmt-at-other-indent-width", "crash"], {"text": text, "indent": w}, {k: str(fw.get(k))[:200] for k in ("panic", "crash", "hang") if k in fw})
            return
        if not fw.get("ok"):
            res.violation(["fmt-at-other-indent-width", "fails"], {"text": text, "indent": w}, {"err": fw.get("err", "")[:200]})
            return
        pw = probe.safe_call({"op": "parse", "text": fw["text"]})
        if not pw.get("ok"):
            res.violation(["fmt-at-other-indent-width", "output-unparsable"], {"text": text, "indent": w}, {"formatted": fw["text"][:600], "err": str(pw.get("err", ""))[:300]})
            return
        d = first_diff(p0["ast"], pw["ast"])
        if d:
            res.violation(["fmt-at-other-indent-width", "changes-tree"], {"text": text, "indent": w}, {"formatted": fw["text"][:600], "path": list(d[0]), "key": d[1]})
            return
        if c0 is not None and comments_of(fw["text"]) != c0:
            res.violation(["fmt-at-other-indent-width", "comments"], {"text": text, "indent": w}, {"formatted": fw["text"][:600], "before": c0[:12], "after": (comments_of(fw["text"]) or [])[:12]})
            return
        # (no comparison of the two texts beyond that: the printer also writes the indent in the middle of a line before an
        #  embedded comment, so the texts legitimately differ in more than leading blanks; the property does not speak of it)
        if own_line_comments:
            fw2 = probe.safe_call({"op": "fmt", "text": fw["text"], "indent": w})
            if fw2.get("ok") and fw2["text"] != fw["text"]:
                res.violation(["fmt-at-other-indent-width", "not-a-fixed-point"], {"text": text, "indent": w}, {"once": fw["text"][:800], "twice": fw2["text"][:800]})
                return
        res.count("indent-width-%d-agrees" % w)
    if own_line_comments:
        f2 = probe.safe_call({"op": "fmt", "text": ft})
        if f2.get("ok"):
            if f2["text"] != ft:
                # where does it differ?
                a, b = ft.split("\n"), f2["text"].split("\n")
                i = 0
                while i < min(len(a), len(b)) and a[i] == b[i]:
                    i += 1
                res.violation(["not-a-fixed-point", classify_line(a[i] if i < len(a) else "<eof>")], {"text": text},
                              {"once": ft[:800], "twice": f2["text"][:800], "first_differing_line": i + 1})
                return
            res.count("fixed-point")
        elif not ("panic" in f2 or "crash" in f2 or "hang" in f2):
            res.violation(["fmt-of-formatted-fails"], {"text": text}, {"formatted": ft[:600], "err": f2.get("err", "")[:200]})
            return
    if cli:
        with core.TempProject("c05") as tp:
            tp.write("f.ucg", text)
            ev = core.run_cli(["fmt", "f.ucg"], tp.root)
            if ev["exit"] == 0 and ev["stdout_b"].decode("utf-8", "replace") != ft:
                res.violation(["cli-fmt-differs-from-library"], {"text": text}, {"cli": ev["stdout"][:400], "lib": ft[:400]})
            ev = core.run_cli(["fmt", "-w", "f.ucg"], tp.root)
            try:
                after = open(tp.path("f.ucg"), encoding="utf-8").read()
            except Exception:
                after = None
            if ev["exit"] == 0 and after != ft:
                res.violation(["cli-fmt-w-differs-from-library"], {"text": text}, {"file": (after or "")[:400], "lib": ft[:400]})
            res.count("cli-fmt-runs")
            # the same program written LOOSELY (trailing blanks, blank lines at the end, a wide gap before the first token):
            # the formatted text is shorter than the file it replaces
            loose = " " * 30 + text.rstrip("\n") + " " * 50 + "\n" + (" " * 70 + "\n") * 6
            fl = probe.safe_call({"op": "fmt", "text": loose})
            if fl.get("ok"):
                tp.write("g.ucg", loose)
                ev = core.run_cli(["fmt", "-w", "g.ucg"], tp.root)
                try:
                    after = open(tp.path("g.ucg"), "rb").read().decode("utf-8", "replace")
                except Exception:
                    after = None
                if ev["exit"] == 0 and after != fl["text"]:
                    res.violation(["cli-fmt-w-differs-from-library", "formatted-" + ("shorter" if len(fl["text"].encode("utf-8")) < len(loose.encode("utf-8")) else "not-shorter") + "-than-source"],
                                  {"text": loose}, {"file_tail": (after or "")[-200:], "lib_tail": fl["text"][-200:], "file_bytes": len((after or "").encode("utf-8")), "lib_bytes": len(fl["text"].encode("utf-8"))})
                elif ev["exit"] == 0:
                    res.count("cli-fmt-w-of-loose-source:" + ("shorter" if len(fl["text"].encode("utf-8")) < len(loose.encode("utf-8")) else "not-shorter"))
                # directory mode rewrites in place as well
                tp.write("d/h.ucg", loose)
                ev = core.run_cli(["fmt", "d"], tp.root)
                try:
                    after = open(tp.path("d/h.ucg"), "rb").read().decode("utf-8", "replace")
                except Exception:
                    after = None
                if ev["exit"] == 0 and after != fl["text"]:
                    res.violation(["cli-fmt-directory-differs-from-library"], {"text": loose}, {"file_tail": (after or "")[-200:], "lib_tail": fl["text"][-200:]})
                elif ev["exit"] == 0:
                    res.count("cli-fmt-directory-runs")


def classify_line(line):
    s = line.strip()
    if s.startswith("//"):
        return "comment-line"
    if not s:
        return "blank-line"
    return "code-line"


LITERAL_FORMS = [
    "let a = 1.0;", "let a = 10.0;", "let a = 1.50;", "let a = .5;", "let a = 1.;", "let a = 0.0;", "let a = 100000000000000000000000.0;",
    "let a = 0.000000000000000000000001;", "let a = 123456789.125;", "let a = 9007199254740993.0;", "let a = 0.1;",
    "let a = 0:2:10;", "let a = 1:10;", "let a = (1 + 1):(2):(3 * 3);", "let a = x:y;", "let a = [0:2:10, 1:3];",
    "let a = \"a\\nb\";", "let a = \"a\\tb\\r\";", "let a = \"q\\\"q\";", "let a = \"back\\\\slash\";", "let a = \"é ü 中 \U0001F600\";",
    "let a = \"\\\\@\" % (1);", "let a = \"@{item.a}\" % {a = 1};", "let a = \"line1\nline2\";", "let a = \"\";",
    "let a = {\"NULL\" = 1};", "let a = {\"true\" = 1};", "let a = {true = 1, false = 2};", "let a = {\"let\" = 1, \"in\" = 2};",
    "let a = {\"select\" = 1}.\"select\";", "let a = {\"a b\" = 1}.\"a b\";", "let a = {\"x-1\" = 1};", "let a = {x-1 = 1}.x-1;",
    "let a = {\"1\" = 1};", "let a = {\"\" = 1};", "let a = {\"a.b\" = 1};", "let a = {a_b = 1, a1 = 2};", "let a = t.\"a\";",
    "let a = t.(k);", "let a = t.0.a;", "let a = (t.0).1;", "let a = {a = 1}.a;", "let a = [1, 2].0;",
    "let a :: 0 = 1;", "let a :: \"\" = \"s\";", "let a :: in 1..10 = 5;", "let a :: in 1.. = 5;", "let a :: in ..10 = 5;",
    "let a :: in 1..10 | 20 | in 30..40 = 5;", "let a :: 1 | 2 | 3 = 2;", "let a :: {x = 0} = {x = 1};", "let a :: [0] = [1];",
    "constraint port = in 1..65535;", "constraint c = 1 | 2; let a :: c = 1;", "let t = {a :: 0 = 1, b :: \"\" = \"s\"};",
    "let f = func (a :: 0, b :: \"\") => a;", "let m = module {a :: 0 = 1} => (a :: 0) { let a = mod.a; };",
    "let a = not true;", "let a = not (true && false);", "let a = (not true) && false;", "let a = fail \"x\";",
    "let a = TRACE 1 + 2;", "let a = (TRACE 1) + 2;", "let a = convert json {a = 1};", "let a = (convert json 1) + \"x\";",
    "let a = 1 + 2 * 3;", "let a = (1 + 2) * 3;", "let a = 1 - (2 - 3);", "let a = 1 - 2 - 3;", "let a = a in b;", "let a = \"a\" in b;",
    "let a = x is \"str\";", "let a = s ~ \"^a\";", "let a = s !~ \"^a\";", "let a = 5 %% 3;", "let a = a && b || c;",
    "let a = select (x, 1) => {a = 1, b = 2};", "let a = select (x) => {true = 1, false = 2};", "let a = select (x, NULL) => {\"a b\" = 1};",
    "let a = map(func (x) => x, [1]);", "let a = filter(f, t);", "let a = reduce(func (a, b) => a + b, 0, [1, 2]);",
    "let a = import \"std/lists.ucg\";", "let a = (import \"std/lists.ucg\").len;", "let a = include str \"f.txt\";",
    "let a = int(\"1\");", "let a = str(1) + float(2);", "let a = bool(\"true\");", "let a = f(1, 2);", "let a = t.f(1);", "let a = f();",
    "let a = b{};", "let a = b{c = 1};", "let a = b.c{d = self.d + 1};", "let a = {};", "let a = [];", "let a = [[], {}];",
    "let a = NULL;", "let a = env.HOME;", "assert {ok = true, desc = \"d\"};", "out json {a = 1};", "1;", "\"s\";", "a.b.c;",
    "let m = module {} => {};", "let m = module {a = 1,} => (r) { let r = mod.a; };", "let f = func () => 1;", "let f = func (a) => func (b) => a + b;",
    "let a = [1, 2, 3,];", "let a = {a = 1, b = 2,};", "let a = f(1, 2,);",
]

FIELD_NAMES = ["caf\u00e9", "gr\u00f6\u00dfe", "x\u03bb", "a\u00e9b", "a_\u00e9", "a\u4e2d", "z\U0001F600", "_foo", "_", "__", "a_b", "a-b", "-a", "a-", "9x", "x9", "a.b", "a b", " a", "", "\u00e9", "a\"b", "a\\b", "a\nb", "a\tb", "A", "aB1",
               "NULL", "true", "false", "let", "import", "include", "as", "select", "func", "module", "env", "self", "mod", "item", "in", "is",
               "not", "fail", "assert", "out", "convert", "map", "filter", "reduce", "constraint", "TRACE", "null", "True", "a@b", "a=b", "a,b", "a;b",
               "a//b", "a{b", "a}b", "a(b", "a[b", "a:b", "a::b", "a|b", "a%b", "a$b", "a'b", "\U0001F600",
               # an escape and a multi-byte character in one name
               "cl\u00e9 \"a\"", "d\u00e9\\f", "\u4e2d\"", "\\\u00fc"]


def field_name_forms():
    out = []
    for n in FIELD_NAMES:
        q = gen.quote(n)
        out += ["let a = {%s = 1};" % q, "let a = {%s = 1, b = 2}.%s;" % (q, q), "let a = t{%s = 2};" % q,
                "let a = select (x, 1) => {%s = 1, other = 2};" % q, "let m = module {%s = 1} => {};" % q,
                "let t = {%s :: 0 = 1};" % q, "let a :: {%s = 0} = {%s = 1};" % (q, q), "let a = %s;" % q]
    return out


def float_forms():
    out = []
    for k in range(-30, 31):
        for m in ("1", "1.5", "9.999999999999999", "1.2345678901234567"):
            digits = m.replace(".", "")
            point = 1 + k          # position of the decimal point relative to the first digit
            if point <= 0:
                t = "0." + "0" * (-point) + digits
            elif point >= len(digits):
                t = digits + "0" * (point - len(digits)) + ".0"
            else:
                t = digits[:point] + "." + digits[point:]
            out.append("let a = %s;" % t)
    return out


COMMENT_FORMS = [
    "// c\nlet a = 1;", "let a = 1; // trailing\nlet b = 2;", "//\nlet a = 1;", "//  two spaces\nlet a = 1;", "//c\nlet a = 1;",
    "// one\n// two\n\n// three\nlet a = 1;\n// end\n", "let a = {\n  // field\n  a = 1,\n  // second\n  b = 2,\n};",
    "let a = [\n  // first\n  1,\n  // second\n  2,\n];", "let a = 1 + // op\n 2;", "let // after let\n a = 1;", "let a // after name\n = 1;",
    "let a = // after eq\n 1;", "let a = f(// arg\n 1);", "let a = func (x) => // body\n x;", "let a = select (x, // d\n 1) => {a = 1};",
    "let a = 1;\n\n\n// far\n\n\nlet b = 2;", "let a = 1;\r\n// crlf\r\nlet b = 2;\r\n", "// only a comment", "// a\n// b", "let a = 1; //",
    "let m = module {} => {\n  // inside\n  let x = 1;\n};", "let a = not // c\n true;", "let a = x in // c\n y;", "let a = import // c\n \"f\";",
    "assert // c\n {ok = true, desc = \"d\"};", "out // c\n json 1;", "let a = map // c\n (f, l);", "let a = b{ // c\n c = 1};",
    "let a = (// c\n 1);", "let a = [1, // c\n 2];", "let a = {a = 1, // c\n b = 2};", "let a = 1 // c1\n + 2 // c2\n + 3; // c3\n",
    "let//glued\n a = 1;", "let a = not//glued\n true;", "let a = x in//glued\n y;", "let a = import//glued\n \"f\";", "assert//glued\n {ok = true, desc = \"d\"};",
    "let a = select//glued\n (x, 1) => {a = 1};", "let a = func//glued\n (x) => x;", "let a = module//glued\n {} => {};", "let a = map//glued\n (f, l);",
    "let a = fail//glued\n \"x\";", "let a = TRACE//glued\n 1;", "out//glued\n json 1;", "let a = convert//glued\n json 1;", "constraint//glued\n c = 1;",
    "let a = x is//glued\n \"str\";", "let a = include//glued\n str \"f\";", "let a = filter//glued\n (f, l);", "let a = reduce//glued\n (f, 0, l);",
    "let a = 1;\n// g1\n\n// g2\n", "let a = 1;\n// g1\n\n\n// g2 l1\n// g2 l2\n\n// g3\n", "// only\n\n// comments\n\n\n// here\n",
    "let a = [\n  1,\n  // commented out tail\n];\n\n// footer\n", "let a = {\n  x = 1,\n  // tail\n};\n// f1\n\n// f2\n", "let a = 1;\n  // indented g1\n// g2\n",
    "// header\n\nlet a = 1;\n\n// mid\n\nlet b = 2;\n\n// t1\n\n// t2\n\n// t3",
    "// é unicode ü\nlet a = 1;", "//\ttab\nlet a = 1;", "// trailing spaces   \nlet a = 1;", "/// three slashes\nlet a = 1;", "// a // b\nlet a = 1;",
]


def task(args):
    kind = args[0]
    res = core.Result()
    probe = core.Probe()
    try:
        if kind == "gen":
            _, seed, idx, count = args
            r = core.rng_for(seed, "c05", idx)
            for c in range(count):
                stmts, _ = progs.gen_program(r, depth=r.choice([2, 3, 4]), nstmts=6, p_bad=r.choice([0, 0, 0.05]))
                # canonical layout first (no comments): fixed point must hold
                pr = gen.Printer()
                pr.program(stmts)
                judge(probe, gen.join_stmts(pr.toks), res, "gen-canonical", own_line_comments=True, cli=(c % 25 == 0))
                for v in range(3):
                    pr = gen.Printer(rng=r, extra_parens=r.choice([0, 0.05, 0.15]), quote_fields=r.choice([0, 0.3]),
                                     trailing_commas=r.choice([0, 0.5]))
                    pr.program(stmts)
                    text, tokpos, spans, comments = gen.layout_text(r, pr.toks, newline=r.choice(["\n", "\n", "\r\n"]),
                                                                    p_comment=r.choice([0.0, 0.05, 0.15]),
                                                                    p_newline=r.choice([0.05, 0.3]))
                    judge(probe, text, res, "gen-layout", own_line_comments=not comments)
                # comments on their own lines between statements
                lines = []
                for i, s in enumerate(stmts):
                    if r.random() < 0.5:
                        for _ in range(r.randint(1, 3)):
                            lines.append("//" + r.choice(gen.COMMENT_POOL))
                        if r.random() < 0.3:
                            lines.append("")
                    p1 = gen.Printer()
                    p1.stmt(s)
                    lines.append(gen.join_canonical(p1.toks))
                if r.random() < 0.45:
                    # one to three comment groups after the last statement, separated by blank lines or indentation
                    for g in range(r.randint(1, 3)):
                        if g and r.random() < 0.8:
                            lines += [""] * r.randint(1, 3)
                        ind = r.choice(["", "", "  ", "\t"])
                        for _ in range(r.randint(1, 3)):
                            lines.append(ind + "// trailing " + r.choice(gen.COMMENT_POOL))
                judge(probe, "\n".join(lines) + "\n", res, "gen-own-line-comments", own_line_comments=True)
                if c < 1 and idx < 2:
                    res.sample({"text": text[:400]})
        elif kind == "forms":
            for i, t in enumerate(LITERAL_FORMS):
                judge(probe, t, res, "literal-form", own_line_comments=True, cli=(i % 10 == 0))
                judge(probe, t + "\n" + t.replace("let a", "let b").replace("let m", "let m2").replace("let f", "let f2").replace("let t", "let t2"), res, "literal-form-x2", own_line_comments=True)
            for i, t in enumerate(field_name_forms() + float_forms()):
                judge(probe, t, res, "name-or-float-form", own_line_comments=True, cli=(i % 40 == 0))
            for t in COMMENT_FORMS:
                own = all(l.strip().startswith("//") or "//" not in l for l in t.split("\n")) and "{\n" not in t and "[\n" not in t
                judge(probe, t, res, "comment-form", own_line_comments=own)
            res.sample({"text": LITERAL_FORMS[11]})
        elif kind == "files":
            _, idx, nshards = args
            files = [f for f in hostile.corpus_files() if f.endswith(".ucg")]
            for fi, path in enumerate(files):
                if fi % nshards != idx:
                    continue
                try:
                    text = open(path, encoding="utf-8").read()
                except (OSError, UnicodeDecodeError):
                    continue
                res.count("repo-files")
                judge(probe, text, res, "repo-file", own_line_comments=False, cli=(fi % 25 == 0))
    finally:
        probe.stop()
    return res


def run(tier, seed, t0):
    q = tier == "quick"
    n = 3000 if q else 50000
    sh = 32 if q else 128
    tasks = [("gen", seed, i, n // sh) for i in range(sh)] + [("forms",)] + [("files", i, 16) for i in range(16)]
    res = core.run_parallel(task, tasks)
    return core.finish("C05", tier, seed, res, RULE, t0, replay_known=replay_known,
                       assumptions=["a comment's text is what follows `//` with surrounding blanks trimmed (the formatter "
                                    "normalises the blank after `//`)",
                                    "tree equality ignores positions and whether a field-name token was quoted, nothing else; "
                                    "Grouped nodes are kept"])


def check_text(text, own=True):
    res = core.Result()
    probe = core.Probe()
    try:
        judge(probe, text, res, "replay", own_line_comments=own, cli=True)
    finally:
        probe.stop()
    return res


def replay_known(entry):
    w = entry.get("witness", {})
    if "text" not in w:
        return None
    res = check_text(w["text"], w.get("own_line_comments", True))
    if entry.get("status") == "known":
        return any(v["signature"] == entry["signature"] for v in res.violations)
    return bool(res.violations)


def replay(path, tier, seed):
    d = json.load(open(path))
    res = check_text(d["witness"]["text"])
    if res.violations:
        print("VIOLATION property=C05 replay=%s" % path)
        print(json.dumps(res.violations[0], indent=1, ensure_ascii=False)[:2000])
        return 1
    print("replay: no violation")
    return 0
