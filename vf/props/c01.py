"""C01 - compiled evaluation equals the definitional semantics (reference interpreter oracle)."""
import json
import time

from .. import core, gen, progs, refint

RULE = ("programs from the typed generator (vf/progs.py; depth/statement bounds per tier; p=0.10 per node of a "
        "deliberately ill-typed or failing sub-term, incl. inside short-circuited operands), printed with minimal "
        "parentheses per the published precedence table, evaluated by FileBuilder::eval_string through the probe and "
        "by the definitional interpreter vf/refint.py; compared: success/failure and every binding the reference "
        "defines (tagged values: int vs float kept apart, tuple field order kept). distinct = distinct source "
        "texts; non-trivial = >=3 distinct construct kinds and accepted by the parser.")
RULE += (" " + 'Also: an exhaustive small-domain grid of 2,074 one-binding programs (ranges over start, end in 0..6 x step in none,1,2,3,5,7,0 and negative ones; int and float arithmetic and comparisons over all operand pairs of small pools; `is` over every type name x value kind; the four casts of every value kind and of 16 string forms; mixed-type ==, +, in; not, &&, || on every value kind; select on every value kind; boolean selects over 8 arm sets with and without default), judged by the same reference interpreter.')
RULE += (" " + 'Round 6: int() of a float truncates towards zero (types_test.ucg: `truncates`), with a grid of 15 floats on both sides of zero.')
RULE += (" " + 'Round 7: 35 grid programs with a bareword left of `in` that is also bound (to seven kinds of value, as a parameter), against tuple and list subjects.')
RULE += (" " + 'Round 8: the reference is silent on rounding with negative operands, so values of / and %% there get no verdict from the reference interpreter; a law takes their place: for q = a / b and r = a %% b over 27 x 27 integers (both signs, 0, +-1, near i64 limits; directly, through a function, through map / reduce callbacks) q * b + r == a and |r| < |b|, and a zero divisor fails.')


def judge_program(probe, stmts, text=None, fresh=False):
    """-> (verdict, detail)   verdict in held / violated / unspec / inconclusive / rejected"""
    if text is None:
        text = gen.to_text(stmts)
    it = refint.Interp(strict=True)
    try:
        bound, status, fail_idx, fail_msg = it.run(stmts)
    except refint.Budget:
        return "inconclusive", {"why": "reference budget"}, text
    except RecursionError:
        return "inconclusive", {"why": "reference recursion"}, text
    r = probe.safe_call({"op": "eval", "text": text, "strict": True, "fresh": fresh, "reuse_max": 50}, timeout=20.0)
    if "panic" in r or "crash" in r or "hang" in r:
        # crashes are C04's business; C01 gives no verdict on them
        return "crash", {"resp": {k: r[k] for k in r if k in ("panic", "crash", "hang")}}, text
    if "inconclusive" in r:
        return "inconclusive", {"why": r["inconclusive"]}, text
    has_unspec = any(v[0] == "U" for v in bound.values())
    if not r.get("ok"):
        err = r.get("err", "")
        if "ParseError" in err or err.startswith("Expected") and "line" not in err:
            pass
        if status == "fail":
            return "held", {"outcome": "failed-as-expected"}, text
        if has_unspec:
            return "unspec", {"why": sorted(set(v[1] for v in bound.values() if v[0] == "U"))}, text
        if "ParseError" in err:
            return "violated", {"kind": "rejected-by-parser", "err": err[:300]}, text
        return "violated", {"kind": "fails-but-reference-succeeds", "err": err[:300]}, text
    # ucg succeeded
    if status == "fail":
        return "violated", {"kind": "succeeds-but-reference-fails", "ref_fail_stmt": fail_idx, "ref_msg": fail_msg}, text
    got = {k: refint.strip_r(v) for k, v in r["val"]["T"]}
    mism = []
    for name, v in bound.items():
        if name.startswith("<"):
            continue
        if v[0] == "U":
            continue
        if name not in got:
            mism.append({"binding": name, "expected": refint.lower(v), "observed": "<missing>"})
            continue
        exp = refint.lower(v)
        if not refint.same(exp, got[name]):
            mism.append({"binding": name, "expected": exp, "observed": got[name]})
    extra = [k for k in got if k not in bound]
    if extra:
        mism.append({"binding": extra[0], "expected": "<not bound>", "observed": got[extra[0]]})
    if mism:
        return "violated", {"kind": "value-mismatch", "mismatches": mism[:3]}, text
    if has_unspec:
        return "held", {"outcome": "ok-with-unspec"}, text
    return "held", {"outcome": "ok"}, text


def shrink(probe, stmts, kind):
    """greedy statement deletion keeping the same violation kind"""
    cur = list(stmts)
    changed = True
    budget = 60
    while changed and budget > 0:
        changed = False
        for i in range(len(cur) - 1, -1, -1):
            cand = cur[:i] + cur[i + 1:]
            if not cand:
                continue
            budget -= 1
            v, d, _ = judge_program(probe, cand, fresh=True)
            if v == "violated" and d.get("kind") == kind:
                cur = cand
                changed = True
                break
            if budget <= 0:
                break
    return cur


def classify(stmts, detail):
    """signature of a violation: (kind, construct kinds of the culprit statement)"""
    kind = detail.get("kind")
    if kind == "value-mismatch":
        b = detail["mismatches"][0]["binding"]
        for s in stmts:
            if s[0] == "let" and s[1] == b:
                ks = sorted(progs.kinds(s[2]) - {"sym", "int", "str", "bool", "float", "null", "grp"})
                return [kind] + ks[:6]
        return [kind]
    if kind == "succeeds-but-reference-fails":
        import re
        return [kind, re.sub(r"[0-9]+", "N", detail.get("ref_msg", ""))[:60]]
    if kind in ("fails-but-reference-succeeds", "rejected-by-parser"):
        import re
        msg = re.sub(r"[0-9]+", "N", detail.get("err", ""))
        msg = re.sub(r"\"[^\"]*\"|\([^)]*\)", "_", msg)
        return [kind, msg[:60]]
    return [kind]


def task(args):
    seed, idx, count, depth, nstmts = args
    r = core.rng_for(seed, "c01", idx)
    res = core.Result()
    probe = core.Probe()
    for c in range(count):
        stmts, used = progs.gen_program(r, depth=depth, nstmts=nstmts)
        v, d, text = judge_program(probe, stmts)
        ks = progs.kinds(stmts)
        res.case(text, nontrivial=(len(ks) >= 3 and d.get("kind") != "rejected-by-parser"))
        for k in ks:
            res.count("construct:" + k)
        if v == "violated":
            # confirm in a fresh Environment (a cache leak would be C16's business)
            v2, d2, _ = judge_program(probe, stmts, fresh=True)
            if v2 != "violated":
                res.count("disappears-in-fresh-environment")
                res.inconclusive += 1
                continue
            small = shrink(probe, stmts, d2.get("kind"))
            v3, d3, t3 = judge_program(probe, small, fresh=True)
            if v3 != "violated":
                small, d3, t3 = stmts, d2, text
            res.violation(classify(small, d3), {"text": t3, "ast_repr": repr(small)}, d3)
        elif v == "held":
            res.count("outcome:" + d["outcome"])
        elif v == "unspec":
            res.count("outcome:no-verdict-unspecified")
            for w in d["why"]:
                res.count("unspec:" + w)
        elif v == "crash":
            res.count("outcome:crash-left-to-C04")
            res.sample({"crash_left_to_C04": text, "resp": d.get("resp")})
        else:
            res.inconclusive += 1
        if c < 1 and idx < 6:
            res.sample({"text": text, "verdict": v, "detail": d})
    probe.stop()
    return res


def grid_programs():
    """exhaustive small domains, one binding per program (so an expected failure hides nothing):
    ranges, integer and float arithmetic and comparisons, select on booleans, casts, `is`, `in`"""
    I = lambda n: ("int", n) if n >= 0 else ("bin", "-", ("int", 0), ("int", -n))
    out = []
    for a in range(0, 7):
        for b in range(0, 7):
            for st in (None, 1, 2, 3, 5, 7, 0):
                out.append(("range", ("range", I(a), None if st is None else I(st), I(b))))
    for a in (-3, 0, 2):
        for b in (-4, -1, 3):
            for st in (None, 1, 2, 4, -1):
                out.append(("range-neg", ("range", I(a), None if st is None else I(st), I(b))))
    ints = [-7, -2, -1, 0, 1, 2, 3, 7]
    for x in ints:
        for y in ints:
            for op in ("+", "-", "*", "/", "%%", "<", ">", "<=", ">=", "==", "!="):
                out.append(("int-" + op, ("bin", op, I(x), I(y))))
    F = lambda v: ("float", repr(v)) if v >= 0 else ("bin", "-", ("float", "0.0"), ("float", repr(-v)))
    floats = [-2.5, -1.0, 0.0, 0.5, 1.0, 2.5]
    for x in floats:
        for y in floats:
            for op in ("+", "-", "*", "/", "<", ">", "<=", ">=", "==", "!="):
                out.append(("float-" + op, ("bin", op, F(x), F(y))))
    # int() of floats on both sides of zero, integral and not, computed and passed through a function
    for x in (-2.5, -1.5, -1.0, -0.5, -0.25, 0.0, 0.25, 0.5, 1.0, 1.5, 2.5, 3.99, -3.99, 1e15 + 0.5, -1e15 - 0.5):
        out.append(("cast-int-of-float", ("cast", "int", F(x))))
        out.append(("cast-int-of-float-product", ("cast", "int", ("bin", "*", F(x), ("float", "1.0")))))
    # a bareword on the left of `in` is a FIELD NAME when the subject is a tuple, whatever the same word is bound to, and a
    # binding when the subject is a list
    S_ = lambda n: ("sym", n)
    T_ = lambda *names: ("tuple", [(n, I(1)) for n in names])
    for bound in (("str", "example.org"), ("str", "host"), ("str", "other"), I(80), ("bool", True), ("list", [I(1)]), ("null",)):
        out.append(("in-bareword-also-bound", ("stmts", [("let", "host", bound), ("let", "g", ("bin", "in", S_("host"), T_("host", "other")))])))
        out.append(("in-bareword-also-bound", ("stmts", [("let", "host", bound), ("let", "g", ("bin", "in", S_("host"), T_("other", "port")))])))
        out.append(("in-bareword-also-bound", ("stmts", [("let", "host", bound), ("let", "t", T_("a", "host")), ("let", "g", ("bin", "in", S_("host"), S_("t")))])))
        out.append(("in-bareword-parameter", ("stmts", [("let", "f", ("func", ["host"], ("bin", "in", S_("host"), T_("host")))), ("let", "g", ("call", S_("f"), [bound]))])))
        out.append(("in-bareword-list-subject", ("stmts", [("let", "host", bound), ("let", "g", ("bin", "in", S_("host"), ("list", [bound, I(7)])))])))
    vals = {"int": I(3), "float": ("float", "1.5"), "str": ("str", "s"), "bool": ("bool", True), "null": ("null",), "list": ("list", [I(1)]),
            "tuple": ("tuple", [("a", I(1))]), "func": ("func", ["p"], ("sym", "p")), "module": ("module", [], None, [("let", "r", I(1))]),
            "empty-list": ("list", []), "empty-tuple": ("tuple", []), "empty-str": ("str", "")}
    for vn, v in vals.items():
        for tn in ("null", "str", "int", "float", "tuple", "list", "func", "module", "bool", "nosuch"):
            out.append(("is", ("bin", "is", v, ("str", tn))))
        for cast in ("int", "float", "str", "bool"):
            out.append(("cast-" + cast, ("cast", cast, v)))
        for wn, w in vals.items():
            if vn in ("func", "module") or wn in ("func", "module"):
                continue
            out.append(("eq-mixed", ("bin", "==", v, w)))
            out.append(("plus-mixed", ("bin", "+", v, w)))
            out.append(("in-list", ("bin", "in", v, ("list", [w, I(9)]))))
        out.append(("in-tuple", ("bin", "in", ("str", "a"), v)))
        out.append(("not", ("not", v)))
        out.append(("and", ("bin", "&&", ("bool", True), v)))
        out.append(("or", ("bin", "||", ("bool", False), v)))
        out.append(("select-on", ("select", v, I(0), [("true", I(1)), ("s", I(2)), ("3", I(3))])))
    for s_ in ("12", "-3", "007", " 1", "1 ", "1.5", "", "x", "1e3", "+4", "9223372036854775807", "9223372036854775808", "true", "True", "false", "0"):
        for cast in ("int", "float", "bool", "str"):
            out.append(("cast-str-" + cast, ("cast", cast, ("str", s_))))
    for cond in (True, False):
        for arms in (["true", "false"], ["false", "true"], ["true"], ["false"], ["x", "true"], ["false", "x"], ["x"], []):
            for dflt in (None, I(9)):
                if not arms and dflt is None:
                    continue
                out.append(("select-bool", ("select", ("bool", cond), dflt, [(a, I(i + 1)) for i, a in enumerate(arms)])))
    return out


def task_grid(args):
    idx, nshards = args
    res = core.Result()
    probe = core.Probe()
    for i, (label, e) in enumerate(grid_programs()):
        if i % nshards != idx:
            continue
        stmts = e[1] if e[0] == "stmts" else [("let", "g", e)]
        v, d, text = judge_program(probe, stmts)
        res.case(text, nontrivial=True)
        res.count("grid:" + label)
        if v == "violated":
            v2, d2, _ = judge_program(probe, stmts, fresh=True)
            if v2 == "violated":
                res.violation(["grid", label, d2.get("kind")], {"text": text, "ast_repr": repr(stmts)}, d2)
        elif v == "held":
            res.count("outcome:" + d["outcome"])
        elif v == "unspec":
            res.count("outcome:no-verdict-unspecified")
        elif v == "crash":
            res.count("outcome:crash-left-to-C04")
        else:
            res.inconclusive += 1
    probe.stop()
    return res


LAW_INTS = [-9223372036854775807, -1000003, -100, -17, -9, -8, -7, -6, -5, -4, -3, -2, -1, 0, 1, 2, 3, 4, 5, 6, 7, 8, 9, 17, 100, 1000003, 9223372036854775807]


def law_text(a, b, route):
    A = str(a) if a >= 0 else "(0 - %d)" % -a
    B = str(b) if b >= 0 else "(0 - %d)" % -b
    if route == "direct":
        return "let a = %s;\nlet b = %s;\nlet q = a / b;\nlet r = a %%%% b;\nlet back = q * b + r;\n" % (A, B)
    if route == "func":
        return ("let dm = func (a, b) => {q = a / b, r = a %%%% b};\nlet a = %s;\nlet b = %s;\nlet qr = dm(a, b);\nlet q = qr.q;\nlet r = qr.r;\n"
                "let back = q * b + r;\n" % (A, B))
    return ("let a = %s;\nlet b = %s;\nlet q = map(func (x) => x / b, [a]).0;\nlet r = reduce(func (acc, x) => x %%%% b, 0, [a]);\n"
            "let back = q * b + r;\n" % (A, B))


def judge_law(probe, a, b, route, res):
    """The reference names `/` (integer division on ints) and `%%` (modulus) and is silent on rounding with negative operands, so
    the reference interpreter gives no verdict on the values there.  Whatever the rounding, the two belong together: the
    modulus is what the division leaves over.  q = a / b, r = a %% b  =>  q * b + r == a  and  |r| < |b|."""
    text = law_text(a, b, route)
    rr = probe.safe_call({"op": "eval", "text": text, "strict": True, "reuse_max": 50}, timeout=20.0)
    res.case(text, nontrivial=True)
    res.count("law:div-mod:" + route)
    if "panic" in rr or "crash" in rr or "hang" in rr:
        res.count("outcome:crash-left-to-C04")
        return
    if not rr.get("ok"):
        if b == 0:
            res.count("law:div-mod:zero-divisor-fails")
        else:
            res.violation(["law", "div-mod", "fails"], {"law_text": text, "a": a, "b": b, "route": route}, {"err": rr.get("err", "")[:200]})
        return
    got = dict((k, v) for k, v in rr["val"]["T"])
    if b == 0:
        res.violation(["law", "div-mod", "zero-divisor-succeeds"], {"law_text": text, "a": a, "b": b, "route": route}, {"q": got.get("q"), "r": got.get("r")})
        return
    q, r_, back = got.get("q"), got.get("r"), got.get("back")
    ints = all(isinstance(x, dict) and "i" in x for x in (q, r_, back))
    if not ints:
        res.violation(["law", "div-mod", "not-an-int"], {"law_text": text, "a": a, "b": b, "route": route}, {"q": q, "r": r_, "back": back})
        return
    qi, ri, bi = int(q["i"]), int(r_["i"]), int(back["i"])
    if bi != a or abs(ri) >= abs(b) or qi * b + ri != a:
        res.violation(["law", "div-mod", "quotient-and-modulus-do-not-belong-together", "negative-dividend" if a < 0 else "non-negative-dividend",
                       "negative-divisor" if b < 0 else "positive-divisor"], {"law_text": text, "a": a, "b": b, "route": route}, {"q": qi, "r": ri, "q*b+r": bi})
        return
    res.count("law:div-mod:holds:%s%s" % ("neg" if a < 0 else "nonneg", "/neg" if b < 0 else "/pos"))


def task_law(args):
    idx, nshards = args
    res = core.Result()
    probe = core.Probe()
    n = 0
    for a in LAW_INTS:
        for b in LAW_INTS:
            for route in ("direct", "func", "callback"):
                if abs(a) > 2 ** 62 and abs(b) == 1 and a < 0 and b < 0:
                    continue
                if route != "direct" and (abs(a) > 100 or abs(b) > 100):
                    continue
                n += 1
                if n % nshards == idx:
                    judge_law(probe, a, b, route, res)
    probe.stop()
    return res


def dispatch(t):
    if t[0] == "law":
        return task_law(t[1])
    return task_grid(t[1]) if t[0] == "grid" else task(t)


def run(tier, seed, t0):
    n = core.tier_pick(tier, 16000, 400000)
    depth = core.tier_pick(tier, 4, 6)
    nst = core.tier_pick(tier, 8, 12)
    shards = 64 if tier == "quick" else 256
    tasks = [(seed, i, n // shards, depth, nst) for i in range(shards)] + [("grid", (i, 16)) for i in range(16)] + [("law", (i, 8)) for i in range(8)]
    res = core.run_parallel(dispatch, tasks)
    return core.finish("C01", tier, seed, res, RULE, t0, replay_known=replay_known,
                       assumptions=["vf/refint.py is my reading of docsite/site/content/reference/*.md; rules the "
                                    "reference does not state yield no verdict (counted under unspec:*)",
                                    "crashes/hangs are left to C04"])


def replay_witness(w):
    import ast
    probe = core.Probe()
    if "law_text" in w:
        res = core.Result()
        try:
            judge_law(probe, w["a"], w["b"], w["route"], res)
        finally:
            probe.stop()
        return ("violated" if res.violations else "held"), (res.violations[0] if res.violations else {}), []
    try:
        stmts = ast.literal_eval(w["ast_repr"])
        v, d, text = judge_program(probe, stmts, fresh=True)
    finally:
        probe.stop()
    return v, d, stmts


def replay_known(entry):
    w = entry.get("witness", {})
    if "ast_repr" not in w:
        return None
    v, d, stmts = replay_witness(w)
    if v == "violated":
        return True
    return False


def replay(path, tier, seed):
    d = json.load(open(path))
    v, det, _ = replay_witness(d["witness"])
    print(json.dumps({"verdict": v, "detail": det}, indent=1))
    if v == "violated":
        print("VIOLATION property=C01 replay=%s" % path)
        return 1
    return 0
