"""C09 - imports resolve against the importing file, run once, and cycles are errors."""
import json
import os
import posixpath
import re

from .. import core, projects

RULE = ("generated project trees of 2..8 files in nested directories; import graphs = random DAGs and random graphs with "
        "one back edge; each import placed at one of 22 syntactic positions (top-level let, parenthesised selector, "
        "function body, map/filter/reduce callback, select arm and default, module body / out-expression / parameter "
        "default, format argument, copy/tuple field, list element, call argument, operands, fail message); paths "
        "spelled with ./, redundant . segments, down-and-up .., and absolute; 40% of the imports repeated under a "
        "second spelling and compared with ==; a data file included with a relative path. Every library starts with "
        "`let traceid = TRACE \"<id>\";`, so each evaluation writes one TRACE line to stderr. Each project is built by "
        "the real `ucg build` from 3 working directories (project root, a sibling directory, /) with the entry given "
        "as a relative and as an absolute path: exit status, the artifact (decoded JSON vs the value the project has "
        "by construction) and the per-file TRACE counts (exactly 1 for every reachable file) must agree everywhere. "
        "Cyclic projects must exit 1 with an import-cycle diagnostic, no signal, within the watchdog. distinct = "
        "distinct project trees; non-trivial = >= 3 files or an import inside an expression position.")
RULE += (" " + 'Positions now number 40: every child slot of every expression and statement kind (reduce accumulator and target, map/filter target, select value, range start/step, in/is operands, single-argument format, format template expression, constraint expressions of let / tuple field / function parameter / module result, expression and assert statements, ...). Every project also holds decoy files - same base name as a real file, in other directories, imported by nobody, exporting other types or importing the entry - and a third of the imports are plain top-level lets.')
RULE += (" " + 'Three more import positions: the callback holding the import is run by a helper of std/functional.ucg, a file without imports (maybe.do, maybe.or, identity).')
RULE += (" " + 'Round 8: two of seven directories (stdcfg, standard/lib) and one file name in five (std3.ucg, stdlib_f3.ucg) begin with the letters of the embedded library prefix std/ without being it.')

TRACE_RE = re.compile(r"TRACE: \"(F[0-9]+)\" = ")


def write_project(tp, p):
    for rel, text in p.files.items():
        tp.write(posixpath.join("proj", rel), text)
    os.makedirs(tp.path("sibling"), exist_ok=True)
    # the down-and-up spelling `./zz/../x` goes through a real directory
    for d in set(posixpath.dirname(rel) for rel in p.files) | set(projects.DIRS):
        os.makedirs(tp.path(posixpath.join("proj", d, "zz")), exist_ok=True)


def artifact_path(tp, p):
    return tp.path(posixpath.join("proj", os.path.splitext(p.entry)[0] + ".json"))


def run_config(tp, p, cwd_kind, entry_kind):
    root = tp.path("proj")
    cwd = {"root": root, "sibling": tp.path("sibling"), "slash": "/"}[cwd_kind]
    entry_abs = os.path.join(root, p.entry)
    entry = entry_abs if entry_kind == "absolute" else os.path.relpath(entry_abs, cwd)
    art = artifact_path(tp, p)
    if os.path.exists(art):
        os.remove(art)
    ev = core.run_cli(["build", entry], cwd, timeout=30.0)
    data = None
    if os.path.exists(art):
        data = open(art, "rb").read()
        os.remove(art)
    return ev, data


def positions_of(p):
    s = set()
    for path, imps in p.imports.items():
        for pos, target, sp in imps:
            s.add(pos)
    return s


def judge_acyclic(tp, p, res):
    expect_val = p.values[p.entry]
    expect_inc = p.includes.get(p.entry, "none")
    reach = projects.reachable_files(p)
    expect_ids = sorted(p.ids[f] for f in reach)
    witness = {"files": p.files, "entry": p.entry}
    baseline = None
    for cwd_kind in ("root", "sibling", "slash"):
        for entry_kind in ("relative", "absolute"):
            ev, data = run_config(tp, p, cwd_kind, entry_kind)
            cfg = cwd_kind + "/" + entry_kind
            res.evaluations += 1
            if ev.get("hang") or ev["signal"] or ev["exit"] not in (0, 1):
                res.violation(["crash-or-hang-on-acyclic-project", cfg], witness, {"exit": ev["exit"], "signal": ev["signal"], "stderr": ev["stderr"][-300:]})
                return
            if ev["exit"] != 0:
                culprit = sorted(positions_of(p) & {"map-callback", "filter-callback", "reduce-callback", "fail-message-unreached", "module-out-expression"})
                res.violation(["build-fails", "cwd:" + cwd_kind, "positions:" + ("+".join(culprit) or "other")], witness,
                              {"config": cfg, "stderr": ev["stderr"][-500:]})
                return
            try:
                doc = json.loads(data.decode("utf-8")) if data is not None else None
            except ValueError:
                doc = None
            if doc is None:
                res.violation(["artifact-missing-or-invalid", cfg], witness, {"stderr": ev["stderr"][-300:]})
                return
            if doc.get("val") != expect_val or doc.get("inc") != expect_inc:
                kind = "same-file-two-spellings-differ" if isinstance(doc.get("val"), (int, float)) and doc.get("val", 0) >= 1000000 else "wrong-value"
                res.violation([kind, cfg], witness, {"expected": {"val": expect_val, "inc": expect_inc}, "got": doc})
                return
            if "TRACE: \"DECOY\"" in ev["stderr"]:
                res.violation(["file-nobody-imports-was-evaluated", cfg], witness, {"stderr": ev["stderr"][-300:]})
                return
            ids = sorted(TRACE_RE.findall(ev["stderr"]))
            if ids != expect_ids:
                from collections import Counter
                c = Counter(ids)
                multi = sorted(k for k, n in c.items() if n > 1)
                missing = sorted(set(expect_ids) - set(ids))
                culprit = sorted(positions_of(p) & {"map-callback", "filter-callback", "reduce-callback", "fail-message-unreached", "module-out-expression"})
                res.violation(["evaluation-count", "more-than-once" if multi else "missing", "positions:" + ("+".join(culprit) or "other")], witness,
                              {"config": cfg, "evaluated": dict(c), "expected_once_each": expect_ids})
                return
            res.count("config-ok:" + cfg)
    res.count("acyclic-projects-ok")


def judge_cyclic(tp, p, res):
    witness = {"files": p.files, "entry": p.entry, "cyclic": True}
    for cwd_kind, entry_kind in (("root", "relative"), ("sibling", "absolute")):
        ev, data = run_config(tp, p, cwd_kind, entry_kind)
        res.evaluations += 1
        pos = sorted(set(ps for ps, t, sp in p.imports[p.paths[p.back[0]]] if t == p.paths[p.back[1]]))
        if ev.get("hang"):
            res.violation(["cycle-hang", "position:" + "+".join(pos)], witness, {})
            return
        if ev["signal"] or ev["exit"] not in (0, 1):
            res.violation(["cycle-crash", "position:" + "+".join(pos)], witness, {"signal": ev["signal"], "exit": ev["exit"], "stderr": ev["stderr"][-300:]})
            return
        if ev["exit"] == 0:
            res.violation(["cycle-builds", "position:" + "+".join(pos)], witness, {"stdout": ev["stdout"][-200:]})
            return
        if not re.search(r"cycle", ev["stderr"], re.I):
            res.violation(["cycle-without-cycle-diagnostic", "position:" + "+".join(pos)], witness, {"stderr": ev["stderr"][-400:]})
            return
    res.count("cyclic-projects-ok")


def task(args):
    seed, idx, count = args
    r = core.rng_for(seed, "c09", idx)
    res = core.Result()
    for c in range(count):
        with core.TempProject("c09") as tp:
            root = tp.path("proj")
            cyclic = r.random() < 0.3
            p = projects.gen_project(r, root, cyclic=cyclic)
            write_project(tp, p)
            npos = positions_of(p)
            res.case(json.dumps(p.files, sort_keys=True), nontrivial=(len(p.paths) >= 3 or bool(npos - {"top-level-let"})))
            for pos in npos:
                res.count("position:" + pos)
            if cyclic:
                judge_cyclic(tp, p, res)
            else:
                judge_acyclic(tp, p, res)
            if c < 1 and idx < 2:
                res.sample({"entry": p.entry, "files": {k: v[:300] for k, v in list(p.files.items())[:3]}})
    return res


def run(tier, seed, t0):
    q = tier == "quick"
    n = 480 if q else 6400
    sh = 32 if q else 64
    tasks = [(seed, i, n // sh) for i in range(sh)]
    res = core.run_parallel(task, tasks)
    return core.finish("C09", tier, seed, res, RULE, t0, replay_known=replay_known,
                       assumptions=["one TRACE line per evaluation of a file (observed at the process boundary, no instrumentation)",
                                    "the expected value of every file is known by construction (sum over its import DAG)"])


def check_witness(w):
    res = core.Result()
    with core.TempProject("c09r") as tp:
        root = tp.path("proj")
        files = w["files"]
        # absolute paths inside the stored texts belong to the scratch directory of the original run: re-root them
        m = None
        for t in files.values():
            m = re.search(r"(/\S*?/c09r?-[a-z0-9_]+/proj)/", t)
            if m:
                break
        p = projects.Project()
        p.files = {k: (v.replace(m.group(1), root) if m else v) for k, v in files.items()}
        p.entry = w["entry"]
        write_project(tp, p)
        outs = []
        for cwd_kind in ("root", "sibling", "slash"):
            ev, data = run_config(tp, p, cwd_kind, "absolute")
            ids = sorted(TRACE_RE.findall(ev["stderr"]))
            outs.append((ev["exit"], data, tuple(ids), bool(ev["signal"] or ev.get("hang"))))
        if w.get("cyclic"):
            if any(o[3] or o[0] != 1 for o in outs):
                res.violation(["cycle"], w, {"outs": [o[0] for o in outs]})
        else:
            from collections import Counter
            if len(set((o[0], o[1]) for o in outs)) != 1 or outs[0][0] != 0 or any(n > 1 for n in Counter(outs[0][2]).values()):
                res.violation(["replay"], w, {"exits": [o[0] for o in outs], "traces": [o[2] for o in outs]})
    return res


def replay_known(entry):
    w = entry.get("witness", {})
    if "files" not in w:
        return None
    return bool(check_witness(w).violations)


def replay(path, tier, seed):
    d = json.load(open(path))
    res = check_witness(d["witness"])
    if res.violations:
        print("VIOLATION property=C09 replay=%s" % path)
        print(json.dumps(res.violations[0], indent=1)[:1500])
        return 1
    print("replay: no violation")
    return 0
