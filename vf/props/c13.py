"""C13 - `ucg test` reports a file as passing exactly when all its assertions hold."""
import itertools
import json
import os
import posixpath
import re

from .. import core

RULE = ("generated *_test.ucg files with 0..8 assertions, each true / false / malformed (non-tuple, missing ok, non-bool "
        "ok, non-string desc) / computed through a function so the checker cannot see it, optionally preceded or "
        "followed by a build error (type error, run-time error, syntax error); every assertion description is a unique "
        "id, so the log is an unambiguous history. Invocations of 1..4 files in ALL permutations in one `ucg test` "
        "run (stdout and stderr merged in order), plus each file alone and `-r` on the directory. Oracle: per file, "
        "`File <f> Pass|Fail` / `<f> - PASS|FAIL` must equal (builds and every assertion ok); every well-formed "
        "assertion id appears exactly once in that file's section and in no other; exit status non-zero iff some file "
        "fails; a file's verdict and log are the same alone and at every position of every permutation. distinct = "
        "distinct (file set, order); non-trivial = >= 2 files with at least one failing file before a passing one, or "
        "a malformed / computed assertion.")
RULE += (" " + 'Also: a shared non-test helper file with assertions of its own imported by some of the test files (its assertions belong to every importer); run-time build errors between assertions (the assertions evaluated before the error must be logged); the same file given two and three times in one invocation.')
RULE += (" " + 'Nine more assertion kinds: the assert sits in a module body instantiated by a statement, below one or two function calls, or in the callback of map / filter / reduce.')
RULE += (" " + 'Half of the file sets are also spread over a directory tree (nested directories, directories with only passing files, one without test files) and run with `test -r <dir>` and `test -r .` from inside, together with the mirror image of the tree.')
RULE += (" " + 'Four more malformed kinds: desc NULL literally and through a lookup, ok NULL, desc a list.')

AKINDS = ["true", "true", "true", "false", "non-tuple", "missing-ok", "non-bool-ok", "non-string-desc", "computed-true", "computed-false",
          "expr-true", "expr-false",
          # the assertion sits in a module body; the module is instantiated by a statement, below a function call, or in
          # the callback of map / filter / reduce (a table-driven test)
          "module-direct-true", "module-direct-false", "module-in-func-true", "module-in-func-false", "module-in-map", "module-in-filter", "module-in-reduce",
          "module-in-map-all-true", "module-in-nested-func-false",
          # desc is NULL (literally, or arriving through a function): not a string, so a failure whatever ok says
          "null-desc", "null-desc-computed", "null-ok", "list-desc"]


HELPER_IMPORT = "let helper = import \"helper.ucg\";\n"


def gen_helper(r):
    """a shared non-test file with assertions of its own; every test file that imports it evaluates them"""
    lines = ["let not_a_test = 1;\n"]
    ok_ids, fail_ids = [], []
    for i in range(r.choice([0, 1, 1, 2, 3])):
        aid = "helper-a%d" % i
        if r.random() < 0.6:
            lines.append("assert {ok = not_a_test == 1, desc = \"%s\"};\n" % aid)
            ok_ids.append(aid)
        else:
            lines.append("assert {ok = not_a_test > 1, desc = \"%s\"};\n" % aid)
            fail_ids.append(aid)
    return "".join(lines), {"ids_ok": ok_ids, "ids_fail": fail_ids}


def gen_file(r, fid, helper=None):
    """-> (text, truth: {"pass": bool, "ids_ok": [...], "ids_fail": [...], "build_error": kind|None})"""
    n = r.randint(0, 8)
    lines = ["let mk = func (b, d) => {ok = b, desc = d};\n", "let seven = 7;\n",
             "let chk = module {b = true, d = \"d\"} => (r) { assert {ok = mod.b, desc = mod.d}; let r = mod.b; };\n",
             "let runchk = func (b, d) => chk{b = b, d = d};\n", "let runchk2 = func (b, d) => [runchk(b, d)];\n"]
    ok_ids, fail_ids, malformed = [], [], 0
    if helper is not None and r.random() < 0.4:
        lines.insert(0, HELPER_IMPORT)
        ok_ids += helper["ids_ok"]
        fail_ids += helper["ids_fail"]
    err = None
    err_at = None
    if r.random() < 0.25:
        err = r.choice(["type-error", "runtime-error", "syntax-error", "unknown-name", "fail-expression"])
        err_at = r.randint(0, n)
    pre = None
    for i in range(n + 1):
        if err is not None and err_at == i:
            pre = {"ok": list(ok_ids), "fail": list(fail_ids), "malformed": malformed}
            lines.append({"type-error": "let bad = 1 + \"s\";\n", "runtime-error": "let badl = [1, 2];\nlet bad = badl.(seven);\n",
                          "syntax-error": "let bad = ;\n", "unknown-name": "let bad = nosuchname;\n",
                          "fail-expression": "let bad = fail \"stop here\";\n"}[err])
        if i == n:
            break
        k = r.choice(AKINDS)
        aid = "%s-a%d" % (fid, i)
        if k == "true":
            lines.append("assert {ok = true, desc = \"%s\"};\n" % aid)
            ok_ids.append(aid)
        elif k == "false":
            lines.append("assert {ok = false, desc = \"%s\"};\n" % aid)
            fail_ids.append(aid)
        elif k == "expr-true":
            lines.append("assert {ok = seven == 7, desc = \"%s\"};\n" % aid)
            ok_ids.append(aid)
        elif k == "expr-false":
            lines.append("assert {ok = seven > 100, desc = \"%s\"};\n" % aid)
            fail_ids.append(aid)
        elif k == "computed-true":
            lines.append("assert mk(true, \"%s\");\n" % aid)
            ok_ids.append(aid)
        elif k == "computed-false":
            lines.append("assert mk(1 > 2, \"%s\");\n" % aid)
            fail_ids.append(aid)
        elif k in ("module-direct-true", "module-direct-false"):
            b = k.endswith("true")
            lines.append("let r%d = chk{b = %s, d = \"%s\"};\n" % (i, "true" if b else "false", aid))
            (ok_ids if b else fail_ids).append(aid)
        elif k in ("module-in-func-true", "module-in-func-false"):
            b = k.endswith("true")
            lines.append("let r%d = runchk(%s, \"%s\");\n" % (i, "seven == 7" if b else "seven == 8", aid))
            (ok_ids if b else fail_ids).append(aid)
        elif k == "module-in-nested-func-false":
            lines.append("let r%d = runchk2(false, \"%s\");\n" % (i, aid))
            fail_ids.append(aid)
        elif k in ("module-in-map", "module-in-map-all-true", "module-in-filter", "module-in-reduce"):
            cases = []
            for j in range(r.randint(1, 3)):
                b = True if k == "module-in-map-all-true" else r.random() < 0.6
                cid = "%s-c%d" % (aid, j)
                cases.append("{b = %s, d = \"%s\"}" % ("true" if b else "false", cid))
                (ok_ids if b else fail_ids).append(cid)
            lst = "[" + ", ".join(cases) + "]"
            if k == "module-in-filter":
                lines.append("let r%d = filter(func (c) => chk{b = c.b, d = c.d}, %s);\n" % (i, lst))
            elif k == "module-in-reduce":
                lines.append("let r%d = reduce(func (acc, c) => acc + [runchk(c.b, c.d)], [], %s);\n" % (i, lst))
            else:
                lines.append("let r%d = map(func (c) => chk{b = c.b, d = c.d}, %s);\n" % (i, lst))
        elif k == "null-desc":
            lines.append("assert {ok = true, desc = NULL};\n")
            malformed += 1
        elif k == "null-desc-computed":
            lines.append("assert mk(seven == 7, {d = NULL}.d);\n")
            malformed += 1
        elif k == "null-ok":
            lines.append("assert mk({d = NULL}.d, \"%s\");\n" % aid)
            malformed += 1
        elif k == "list-desc":
            lines.append("assert mk(true, [\"%s\"]);\n" % aid)
            malformed += 1
        elif k == "non-tuple":
            lines.append("assert seven;\n")
            malformed += 1
        elif k == "missing-ok":
            lines.append("assert {desc = \"%s\"};\n" % aid)
            malformed += 1
        elif k == "non-bool-ok":
            lines.append("assert {ok = seven, desc = \"%s\"};\n" % aid)
            malformed += 1
        elif k == "non-string-desc":
            lines.append("assert {ok = true, desc = seven};\n")
            malformed += 1
    truth = {"pass": err is None and not fail_ids and malformed == 0, "ids_ok": ok_ids, "ids_fail": fail_ids, "malformed": malformed,
             "build_error": err, "err_at": err_at, "n": n, "pre": pre}
    return "".join(lines), truth


def sections(out, names):
    """split the merged stream into per-file sections starting at `Validating <f>`"""
    secs = {}          # name -> list of sections, one per occurrence, in order
    cur = None
    order = []
    for line in out.split("\n"):
        m = re.match(r"^Validating (\S+)$", line)
        if m:
            base = os.path.basename(m.group(1))
            cur = base if base in names else None
            if cur is not None:
                secs.setdefault(cur, []).append([])
                order.append(cur)
            continue
        if cur is not None:
            secs[cur][-1].append(line)
    return secs, order


def verdict_of(sec_lines, name):
    v = {"file_line": None, "results_line": None, "err": False, "ok_ids": [], "notok_ids": [], "typefail": 0}
    for l in sec_lines:
        m = re.match(r"^File (\S+) (Pass|Fail)$", l)
        if m and os.path.basename(m.group(1)) == name:
            v["file_line"] = m.group(2)
        m = re.match(r"^(\S+) - (PASS|FAIL)$", l)
        if m and os.path.basename(m.group(1)) == name:
            v["results_line"] = m.group(2)
        if l.startswith("Err:"):
            v["err"] = True
        m = re.match(r"^[0-9]+ - OK: (.*)$", l)
        if m:
            v["ok_ids"].append(m.group(1))
        m = re.match(r"^[0-9]+ - NOT OK: (.*)$", l)
        if m:
            if m.group(1).startswith("TYPE FAIL"):
                v["typefail"] += 1
            else:
                v["notok_ids"].append(m.group(1))
    return v


def judge_run(tp, names, order, truths, res, files, argv=None, alone_ref=None):
    ev = core.run_cli(["test"] + (argv or list(order)), tp.root, timeout=60.0, merge=True)
    witness = {"files": files, "order": list(order), "argv": argv or list(order), "truths": truths}
    if ev.get("hang") or ev["signal"] or ev["exit"] not in (0, 1):
        res.violation(["test-run-crash-or-hang"], witness, {"exit": ev["exit"], "signal": ev["signal"], "output": ev["stdout"][-400:]})
        return None
    secs, seen_order = sections(ev["stdout"], set(names))
    # `<f> - PASS|FAIL` lines are printed per command-line argument: after each file, or once at the end for a directory
    results = {}
    for l in ev["stdout"].split("\n"):
        m = re.match(r"^(\S+) - (PASS|FAIL)$", l)
        if m and os.path.basename(m.group(1)) in names:
            results.setdefault(os.path.basename(m.group(1)), []).append(m.group(2))
    out = {}
    any_fail = False
    earlier_failed = False
    occ = {}
    allsecs = secs
    for name in order:
        t = truths[name]
        k = occ.get(name, 0)
        occ[name] = k + 1
        if name not in allsecs or len(allsecs[name]) <= k:
            res.violation(["file-not-validated"], witness, {"file": name, "occurrence": k, "output": ev["stdout"][-400:]})
            return None
        secs = {name: allsecs[name][k]}
        v = verdict_of(secs[name], name)
        rl = results.get(name, [])
        if len(rl) != order.count(name):
            res.violation(["results-line-count"], witness, {"file": name, "results_lines": rl, "full": ev["stdout"][-800:]})
            return None
        v["results_line"] = rl[k] if len(rl) > k else None
        out[name] = v
        reported_pass = (v["results_line"] == "PASS")
        ctx = "after-a-failing-file" if earlier_failed else "first-or-after-passing-files"
        if v["results_line"] is None:
            res.violation(["no-verdict-line"], witness, {"file": name, "section": secs[name][-12:], "full": ev["stdout"][-1500:]})
            return None
        if v["file_line"] is not None and (v["file_line"] == "Pass") != reported_pass:
            res.violation(["file-line-and-results-line-disagree"], witness, {"file": name, "section": secs[name][-12:]})
            return None
        if reported_pass != t["pass"]:
            res.violation(["wrong-verdict", "reported-" + v["results_line"], ctx, "build-error:%s" % t["build_error"] if t["build_error"] else
                           ("malformed" if t["malformed"] and not t["ids_fail"] else "assertions")], witness,
                          {"file": name, "truth": t, "section": secs[name][-14:]})
            return None
        # exactly once, in the right file, with the right outcome (only when the file builds: otherwise no summary is printed)
        if v["err"] and t["malformed"] and t["build_error"] is None:
            # a malformed assertion that the type checker sees is reported as a build error: a failure either way
            res.count("malformed-assertion-rejected-statically")
        elif t["build_error"] in ("runtime-error", "unknown-name", "fail-expression") and t.get("pre") and t["pre"]["malformed"] == 0 \
                and t["malformed"] == 0 and not any("Type error" in l for l in secs[name]):
            # the build fails at run time: the assertions evaluated before the failing statement are logged, the others not
            exp_ok, exp_fail = sorted(t["pre"]["ok"]), sorted(t["pre"]["fail"])
            if sorted(v["ok_ids"]) != exp_ok or sorted(v["notok_ids"]) != exp_fail:
                res.violation(["assertion-log", "assertions-before-a-build-error", ctx], witness,
                              {"file": name, "expected_ok": exp_ok, "expected_not_ok": exp_fail, "logged_ok": v["ok_ids"], "logged_not_ok": v["notok_ids"],
                               "section": secs[name][-10:]})
                return None
            res.count("log-before-build-error-ok")
        elif t["build_error"] is None:
            exp_ok, exp_fail = sorted(t["ids_ok"]), sorted(t["ids_fail"])
            if sorted(v["ok_ids"]) != exp_ok or sorted(v["notok_ids"]) != exp_fail:
                foreign = [x for x in v["ok_ids"] + v["notok_ids"] if not x.startswith(name.split("_")[0] + "-") and not x.startswith("helper-")]
                dup = len(set(v["ok_ids"] + v["notok_ids"])) != len(v["ok_ids"] + v["notok_ids"])
                kind = "assertions-of-another-file-in-log" if foreign else ("assertion-logged-twice" if dup else "assertion-missing-or-wrong-outcome")
                res.violation(["assertion-log", kind, ctx], witness, {"file": name, "expected_ok": exp_ok, "expected_not_ok": exp_fail,
                                                                      "logged_ok": v["ok_ids"], "logged_not_ok": v["notok_ids"]})
                return None
            if v["typefail"] != t["malformed"]:
                res.violation(["malformed-assertion-count", ctx], witness, {"file": name, "expected": t["malformed"], "logged": v["typefail"], "section": secs[name][-10:]})
                return None
        if not t["pass"]:
            any_fail = True
            earlier_failed = True
    if (ev["exit"] != 0) != any_fail:
        res.violation(["exit-status", "exit-%s" % ev["exit"]], witness, {"failing": [n for n in order if not truths[n]["pass"]], "output": ev["stdout"][-300:]})
        return None
    res.count("runs-ok")
    return out


PASSING_EXTRA = "assert {ok = true, desc = \"%s\"};\n"


def judge_tree(r, files, names, truths, res, layout=None):
    """`ucg test -r <dir>` over a directory TREE: the files are spread over nested directories, next to directories that
    hold only passing files or no test file at all.  The order in which a directory is listed is not ours to choose, so
    every tree is run together with its mirror image (the directory names swapped).  Judged: every test file validated
    exactly once, its verdict line, and exit status 1 iff some file of the tree fails."""
    dirs = ["", "a_sub", "z_sub", "a_sub/deep", "m_sub", "z_sub/deep"]
    if layout is None:
        layout = {n: r.choice(dirs) for n in names}
    mirror = {"a_sub": "z_sub", "z_sub": "a_sub", "a_sub/deep": "z_sub/deep", "z_sub/deep": "a_sub/deep", "m_sub": "m_sub", "": ""}
    for variant, place in (("tree", layout), ("mirror", {n: mirror[d] for n, d in layout.items()})):
        with core.TempProject("c13t") as tp:
            expected = {}
            for n, d in place.items():
                tp.write(posixpath.join("tree", d, n), files[n])
                tp.write(posixpath.join("tree", d, "helper.ucg"), files["helper.ucg"])
                expected[n] = truths[n]["pass"]
            # directories with only passing files, and one without any test file
            for k, d in enumerate(["a_sub/only_passing", "z_sub/only_passing", "zz_last", "aa_first"]):
                pn = "p%d_test.ucg" % k
                tp.write(posixpath.join("tree", d, pn), PASSING_EXTRA % ("p%d" % k))
                expected[pn] = True
            tp.write("tree/m_sub/no_tests_here/readme.ucg", "let x = 1;\n")
            for argv, cwd in ((["test", "-r", "tree"], tp.root), (["test", "-r", "."], tp.path("tree"))):
                ev = core.run_cli(argv, cwd, timeout=90.0, merge=True)
                witness = {"files": files, "layout": layout, "argv": argv, "variant": variant, "truths": truths}
                res.case((json.dumps(files, sort_keys=True), json.dumps(place, sort_keys=True), tuple(argv)), nontrivial=True)
                if ev.get("hang") or ev["signal"] or ev["exit"] not in (0, 1):
                    res.violation(["test-run-crash-or-hang"], witness, {"exit": ev["exit"], "signal": ev["signal"], "output": ev["stdout"][-400:]})
                    return
                validated = [os.path.basename(m.group(1)) for m in re.finditer(r"(?m)^Validating (\S+)$", ev["stdout"])]
                validated = [v for v in validated if v in expected]
                if sorted(validated) != sorted(expected):
                    res.violation(["recursive-run-misses-or-repeats-files", "tree"], witness, {"validated": sorted(validated), "expected": sorted(expected)})
                    return
                verdicts = {}
                for m in re.finditer(r"(?m)^(\S+) - (PASS|FAIL)$", ev["stdout"]):
                    verdicts.setdefault(os.path.basename(m.group(1)), []).append(m.group(2))
                wrong = [n for n, ok in expected.items() if verdicts.get(n) != [("PASS" if ok else "FAIL")]]
                if wrong:
                    res.violation(["wrong-verdict", "tree", "reported-%s" % (verdicts.get(wrong[0]) or ["none"])[0]], witness,
                                  {"file": wrong[0], "expected_pass": expected[wrong[0]], "verdict_lines": verdicts.get(wrong[0])})
                    return
                any_fail = not all(expected.values())
                if (ev["exit"] != 0) != any_fail:
                    res.violation(["exit-status", "exit-%s" % ev["exit"], "tree"], witness,
                                  {"failing": sorted(n for n, ok in expected.items() if not ok), "output": ev["stdout"][-300:]})
                    return
                res.count("tree-runs-ok")


def task(args):
    seed, idx, count = args
    r = core.rng_for(seed, "c13", idx)
    res = core.Result()
    for c in range(count):
        nfiles = r.randint(1, 4)
        files, truths = {}, {}
        helper_text, helper_truth = gen_helper(r)
        for i in range(nfiles):
            name = "t%d_test.ucg" % i
            text, truth = gen_file(r, "t%d" % i, helper_truth)
            files[name] = text
            truths[name] = truth
        names = sorted(files)
        files["helper.ucg"] = helper_text
        with core.TempProject("c13") as tp:
            for n, t in files.items():
                tp.write(n, t)
            for order in itertools.permutations(names):
                hard = any(not truths[a]["pass"] and truths[b]["pass"] for i, a in enumerate(order) for b in order[i + 1:]) or \
                    any(t["malformed"] or any("computed" in x for x in []) for t in truths.values())
                res.case((json.dumps(files, sort_keys=True), order), nontrivial=hard or len(order) >= 2)
                judge_run(tp, names, order, truths, res, files)
            for n in names:
                res.case((json.dumps(files, sort_keys=True), (n,), "alone"), nontrivial=True)
                judge_run(tp, names, (n,), truths, res, files)
            if r.random() < 0.4:
                # the same file given twice (and once more after the others): each occurrence is a test run of its own
                n0 = r.choice(names)
                order = (n0, n0) + tuple(x for x in names if x != n0) + (n0,)
                res.case((json.dumps(files, sort_keys=True), order, "repeated"), nontrivial=True)
                judge_run(tp, names, order, truths, res, files)
            if r.random() < 0.5:
                # -r on the directory: order is the directory order, whatever it is
                ev = core.run_cli(["test", "-r", "."], tp.root, timeout=60.0, merge=True)
                secs, seen_order = sections(ev["stdout"], set(names))
                if sorted(seen_order) == names:
                    res.case((json.dumps(files, sort_keys=True), "-r"), nontrivial=True)
                    judge_run(tp, names, tuple(seen_order), truths, res, files, argv=["-r", "."])
                else:
                    res.violation(["recursive-run-misses-or-repeats-files"], {"files": files, "order": seen_order, "argv": ["-r", "."]},
                                  {"validated": seen_order, "expected": names})
            if r.random() < 0.5:
                judge_tree(r, files, names, truths, res)
        if c < 1 and idx < 2:
            res.sample({"files": files, "truth": truths})
    return res


def run(tier, seed, t0):
    q = tier == "quick"
    n = 192 if q else 2400
    sh = 32 if q else 64
    tasks = [(seed, i, max(1, n // sh)) for i in range(sh)]
    res = core.run_parallel(task, tasks)
    return core.finish("C13", tier, seed, res, RULE, t0, replay_known=replay_known,
                       assumptions=["the per-file log is the part of the merged stdout/stderr stream between `Validating <f>` and the next `Validating`",
                                    "assertion descriptions are unique ids generated per file"])


def truth_from_text(text):
    """recompute the truth of a stored file from its text (the generator's forms are recognisable)"""
    ok, fail, mal = [], [], 0
    err = None
    pre = None
    for l in text.split("\n"):
        m = re.match(r'^assert \{ok = (true|seven == 7), desc = "([^"]+)"\};$', l)
        if m:
            ok.append(m.group(2))
            continue
        m = re.match(r'^assert \{ok = (false|seven > 100), desc = "([^"]+)"\};$', l)
        if m:
            fail.append(m.group(2))
            continue
        m = re.match(r'^assert mk\((true|1 > 2), "([^"]+)"\);$', l)
        if m:
            (ok if m.group(1) == "true" else fail).append(m.group(2))
            continue
        if l.startswith("assert "):
            mal += 1
        if l.startswith("let bad = ") and err is None:
            err = {"let bad = badl.(seven);": "runtime-error", "let bad = nosuchname;": "unknown-name",
                   "let bad = fail \"stop here\";": "fail-expression"}.get(l, "error")
            pre = {"ok": list(ok), "fail": list(fail), "malformed": mal}
    return {"pass": err is None and not fail and mal == 0, "ids_ok": ok, "ids_fail": fail, "malformed": mal, "build_error": err,
            "pre": pre if err else None}


def check_witness(w):
    res = core.Result()
    files = w["files"]
    names = sorted(n for n in files if n.endswith("_test.ucg"))
    if w.get("truths"):
        truths = w["truths"]
        if w.get("layout"):
            judge_tree(None, files, names, truths, res, layout=w["layout"])
            return res
        with core.TempProject("c13r") as tp:
            for n, t in files.items():
                tp.write(n, t)
            judge_run(tp, names, tuple(w["order"]), truths, res, files, argv=w.get("argv") if w.get("argv") != w["order"] else None)
        return res
    truths = {n: truth_from_text(files[n]) for n in names}
    if "helper.ucg" in files:
        ht = truth_from_text(files["helper.ucg"].replace("not_a_test == 1", "true").replace("not_a_test > 1", "false"))
        for n in names:
            if files[n].startswith(HELPER_IMPORT):
                truths[n]["ids_ok"] += ht["ids_ok"]
                truths[n]["ids_fail"] += ht["ids_fail"]
                truths[n]["pass"] = truths[n]["pass"] and not ht["ids_fail"]
    with core.TempProject("c13r") as tp:
        for n, t in files.items():
            tp.write(n, t)
        judge_run(tp, names, tuple(w["order"]), truths, res, files, argv=w.get("argv") if w.get("argv") != w["order"] else None)
    return res


def replay_known(entry):
    w = entry.get("witness", {})
    if "files" not in w:
        return None
    res = check_witness(w)
    if entry.get("status") == "known":
        return any(v["signature"][:2] == entry["signature"][:2] for v in res.violations)
    return bool(res.violations)


def replay(path, tier, seed):
    d = json.load(open(path))
    res = check_witness(d["witness"])
    if res.violations:
        print("VIOLATION property=C13 replay=%s" % path)
        print(json.dumps(res.violations[0], indent=1)[:1500])
        return 1
    print("replay: no violation")
    return 0
