"""Sanitizer supplement (thorough tier): Miri on converter/importer round trips, valgrind memcheck on
the release CLI.  ucg has no `unsafe` and no threads of its own; these runs look at its dependencies
(unsafe-libyaml, serde_json, toml, xml-rs, base64, regex).  A tool that is missing or times out makes
the supplement inconclusive, never a violation."""
import concurrent.futures
import os
import re
import subprocess
import tempfile

from . import core

MIRI_TARGET = os.path.join(core.BUILD, "miri" + core._ALT)


def _miri_cmd(shard, nshards):
    return ["cargo", "+nightly", "miri", "run", "--offline", "--bin", "miri_conv", "--", str(shard), str(nshards)]


def miri_roundtrips(nshards=20, timeout=1500):
    """-> dict(status=ok|unavailable|timeout, shards_run, conversions, ub_reports=[...], mismatches)"""
    env = dict(os.environ)
    env.update({"CARGO_NET_OFFLINE": "true", "CARGO_TARGET_DIR": MIRI_TARGET, "MIRIFLAGS": "-Zmiri-disable-isolation"})
    hdir = core.HARNESS
    out = {"status": "ok", "shards_run": 0, "conversions": 0, "imports": 0, "ub_reports": [], "mismatches": 0}
    # shard 0 first: builds everything once
    try:
        p = subprocess.run(_miri_cmd(0, nshards), cwd=hdir, env=env, stdout=subprocess.PIPE, stderr=subprocess.PIPE, text=True, timeout=timeout)
    except (subprocess.TimeoutExpired, FileNotFoundError):
        out["status"] = "timeout-or-missing"
        return out
    if "MIRI-CONV done" not in p.stdout and "Undefined Behavior" not in p.stderr:
        out["status"] = "unavailable"
        out["detail"] = p.stderr[-400:]
        return out

    def absorb(p):
        out["shards_run"] += 1
        m = re.search(r"MIRI-CONV done n=([0-9]+) mismatches=([0-9]+) imports=([0-9]+)", p.stdout)
        if m:
            out["conversions"] += int(m.group(1))
            out["mismatches"] += int(m.group(2))
            out["imports"] += int(m.group(3))
            for line in p.stdout.splitlines():
                if "ROUND TRIP DIFFERS" in line or "IMPORT ERROR" in line:
                    out.setdefault("mismatch_lines", []).append(line[:200])
        if "Undefined Behavior" in p.stderr or (p.returncode != 0 and not m):
            frames = re.findall(r"--> (\S+:[0-9]+)", p.stderr)
            out["ub_reports"].append({"first_frames": frames[:4], "head": p.stderr[p.stderr.find("error"):][:400]})

    absorb(p)

    def one(sh):
        try:
            return subprocess.run(_miri_cmd(sh, nshards), cwd=hdir, env=env, stdout=subprocess.PIPE, stderr=subprocess.PIPE, text=True, timeout=timeout)
        except subprocess.TimeoutExpired:
            return None

    with concurrent.futures.ThreadPoolExecutor(max_workers=min(8, core.NCPU)) as ex:
        for p in ex.map(one, range(1, nshards)):
            if p is None:
                out["status"] = "partial-timeout"
            else:
                absorb(p)
    return out


def valgrind_cli(inputs, timeout=120):
    """run `ucg build` on each input text under memcheck; -> dict(status, runs, error_reports=[...])"""
    out = {"status": "ok", "runs": 0, "error_reports": []}
    if not os.path.exists("/usr/bin/valgrind"):
        out["status"] = "unavailable"
        return out

    def one(text):
        with core.TempProject("vg") as tp:
            tp.write("f.ucg", text)
            os.makedirs(tp.path("home"), exist_ok=True)
            try:
                p = subprocess.run(["valgrind", "-q", "--error-exitcode=99", "--leak-check=no", core.UCG, "build", "f.ucg"], cwd=tp.root,
                                   env={"PATH": "/usr/bin:/bin", "HOME": tp.path("home")}, stdout=subprocess.PIPE, stderr=subprocess.PIPE, text=True, timeout=timeout)
            except subprocess.TimeoutExpired:
                return ("timeout", text, "")
            if p.returncode == 99 or "Invalid read" in p.stderr or "Invalid write" in p.stderr or "uninitialised" in p.stderr:
                return ("error", text, p.stderr[-600:])
            return ("ok", text, "")

    with concurrent.futures.ThreadPoolExecutor(max_workers=core.NCPU) as ex:
        for st, text, err in ex.map(one, inputs):
            out["runs"] += 1
            if st == "error":
                kind = (re.findall(r"==[0-9]+== (Invalid \w+|Conditional jump|Use of uninitialised|Process terminating)", err) or ["?"])[0]
                out["error_reports"].append({"kind": kind, "text": text[:200], "stderr": err[-300:]})
            elif st == "timeout":
                out["status"] = "partial-timeout"
    return out


def fold_miri(res, prop):
    """run the Miri supplement and fold it into a Result: UB -> violation, anything else that is not a clean run -> inconclusive"""
    m = miri_roundtrips()
    for rep in m["ub_reports"]:
        first = (rep["first_frames"] or ["?"])[0]
        res.violation(["miri-undefined-behaviour", re.sub(r":[0-9]+$", "", first)], {"tool": "miri", "report": rep},
                      {"repro": "cd /verif/harness && MIRIFLAGS=-Zmiri-disable-isolation cargo +nightly miri run --offline --bin miri_conv -- <shard> 20"})
    if m["status"] != "ok":
        res.inconclusive += 1
        res.notes.append("Miri supplement inconclusive: %s %s" % (m["status"], m.get("detail", "")[:200]))
    res.count("miri_conversions_interpreted", m["conversions"])
    res.count("miri_imports_interpreted", m["imports"])
    return m
