"""Multi-file project generator for C09 / C16: DAGs and cyclic graphs of library files in nested
directories, import/include expressions at every syntactic position, equivalent path spellings."""
import os
import posixpath

# "stdcfg" and "standard/lib": user directories whose names merely begin like the embedded library's prefix "std/"
DIRS = ["", "lib", "lib/sub", "other", "a/b/c", "stdcfg", "standard/lib"]

# positions at which an import expression can sit in the importing file.  Each template takes
# the import expression text IMP (e.g. `import "../x.ucg"`) and the name of the field to read
# (`val`), and produces statements that bind `NAME` to the imported file's `val`.
POSITIONS = {
    "top-level-let": lambda imp, name: "let %s_m = %s;\nlet %s = %s_m.val;\n" % (name, imp, name, name),
    "parenthesised-selector": lambda imp, name: "let %s = (%s).val;\n" % (name, imp),
    "function-body": lambda imp, name: "let %s_f = func () => (%s).val;\nlet %s = %s_f();\n" % (name, imp, name, name),
    "map-callback": lambda imp, name: "let %s_l = map(func (x) => (%s).val, [1]);\nlet %s = %s_l.0;\n" % (name, imp, name, name),
    "filter-callback": lambda imp, name: "let %s_l = filter(func (x) => (%s).val == (%s).val, [1]);\nlet %s = (%s).val;\n" % (name, imp, imp, name, imp),
    "reduce-callback": lambda imp, name: "let %s = reduce(func (acc, x) => (%s).val, 0, [1]);\n" % (name, imp),
    "select-arm": lambda imp, name: "let %s = select (\"k\", 0) => {k = (%s).val};\n" % (name, imp),
    "select-default": lambda imp, name: "let %s = select (\"zz\", (%s).val) => {k = 0};\n" % (name, imp),
    "module-body": lambda imp, name: "let %s_mod = module {} => { let m = %s; let r = m.val; };\nlet %s = %s_mod{}.r;\n" % (name, imp, name, name),
    "module-out-expression": lambda imp, name: "let %s_mod = module {} => ((%s).val) { let unused = 1; };\nlet %s = %s_mod{};\n" % (name, imp, name, name),
    "module-parameter-default": lambda imp, name: "let %s_mod = module {p = (%s).val} => (mod.p) { let unused = 1; };\nlet %s = %s_mod{};\n" % (name, imp, name, name),
    "format-argument": lambda imp, name: "let %s_s = \"@\" %% ((%s).val);\nlet %s = (%s).val;\n" % (name, imp, name, imp),
    "copy-field": lambda imp, name: "let %s_b = {v = 0};\nlet %s = %s_b{v = (%s).val}.v;\n" % (name, name, name, imp),
    "tuple-field": lambda imp, name: "let %s = {v = (%s).val}.v;\n" % (name, imp),
    "list-element": lambda imp, name: "let %s = [(%s).val].0;\n" % (name, imp),
    "call-argument": lambda imp, name: "let %s_id = func (x) => x;\nlet %s = %s_id((%s).val);\n" % (name, name, name, imp),
    "binary-operand": lambda imp, name: "let %s = 0 + (%s).val;\n" % (name, imp),
    "fail-message-unreached": lambda imp, name: "let %s = select (\"k\", 0) => {k = (%s).val, j = fail (%s).msg};\n" % (name, imp, imp),
    "not-operand": lambda imp, name: "let %s_b = not ((%s).val == 0 - 1);\nlet %s = (%s).val;\n" % (name, imp, name, imp),
    "range-bound": lambda imp, name: "let %s_r = 0:((%s).val);\nlet %s = (%s).val;\n" % (name, imp, name, imp),
    "cast-operand": lambda imp, name: "let %s = int((%s).val);\n" % (name, imp),
    # every remaining child slot of every expression and statement kind
    "reduce-accumulator": lambda imp, name: "let %s = reduce(func (acc, x) => acc, (%s).val, [1]);\n" % (name, imp),
    "reduce-target": lambda imp, name: "let %s = reduce(func (acc, x) => acc + x, 0, [(%s).val]);\n" % (name, imp),
    "map-target": lambda imp, name: "let %s = map(func (x) => x, [(%s).val]).0;\n" % (name, imp),
    "filter-target": lambda imp, name: "let %s = filter(func (x) => true, [(%s).val]).0;\n" % (name, imp),
    "select-value": lambda imp, name: "let %s_k = select ((%s).msg, 0) => {nomatch = 1};\nlet %s = (%s).val + %s_k;\n" % (name, imp, name, imp, name),
    "range-start": lambda imp, name: "let %s_r = ((%s).val):1000000;\nlet %s = %s_r.0;\n" % (name, imp, name, name),
    "range-step": lambda imp, name: "let %s_r = 0:((%s).val):0;\nlet %s = (%s).val + %s_r.0;\n" % (name, imp, name, imp, name),
    "in-left": lambda imp, name: "let %s_b = (%s).val in [1];\nlet %s = (%s).val;\n" % (name, imp, name, imp),
    "in-right": lambda imp, name: "let %s_b = val in (%s);\nlet %s = (%s).val;\n" % (name, imp, name, imp),
    "is-left": lambda imp, name: "let %s_b = (%s).val is \"int\";\nlet %s = (%s).val;\n" % (name, imp, name, imp),
    "format-single-argument": lambda imp, name: "let %s = int(\"@{item.val}\" %% %s);\n" % (name, imp),
    "let-constraint": lambda imp, name: "let %s :: ((%s).val) = (%s).val;\n" % (name, imp, imp),
    "function-parameter-constraint": lambda imp, name: "let %s_f = func (x :: ((%s).val)) => x;\nlet %s = %s_f((%s).val);\n" % (name, imp, name, name, imp),
    "tuple-field-constraint": lambda imp, name: "let %s = {v :: ((%s).val) = (%s).val}.v;\n" % (name, imp, imp),
    "expression-statement": lambda imp, name: "(%s).val;\nlet %s = (%s).val;\n" % (imp, name, imp),
    "assert-statement": lambda imp, name: "assert {ok = (%s).val > 0, desc = \"d\"};\nlet %s = (%s).val;\n" % (imp, name, imp),
    "module-out-constraint": lambda imp, name: "let %s_mod = module {} => (r :: ((%s).val)) { let r = (%s).val; };\nlet %s = %s_mod{};\n" % (name, imp, imp, name, name),
    "format-template-expression": lambda imp, name: "let %s = int(\"@{(%s).val + item.x}\" %% {x = 0});\n" % (name, imp.replace('"', '\\"')),
    # a callback that is run by a helper function defined in a file WITHOUT any import of its own (std/functional.ucg)
    "callback-run-by-std-maybe-do": lambda imp, name: ("let %s_fn = import \"std/functional.ucg\";\nlet %s = %s_fn.maybe{val = 1}.do(func (v) => (%s).val).unwrap();\n"
                                                       % (name, name, name, imp)),
    "callback-run-by-std-maybe-or": lambda imp, name: ("let %s_fn = import \"std/functional.ucg\";\nlet %s = %s_fn.maybe{val = NULL}.or(func () => (%s).val).unwrap();\n"
                                                       % (name, name, name, imp)),
    "callback-run-by-std-identity-result": lambda imp, name: ("let %s_fn = import \"std/functional.ucg\";\nlet %s_g = %s_fn.identity(func () => (%s).val);\nlet %s = %s_g();\n"
                                                              % (name, name, name, imp, name, name)),
    "trace-operand": lambda imp, name: "let %s = (%s).val + 0;\n" % (name, imp),
}


def spell(r, from_dir, to_path, root, simple=False):
    """a relative (or absolute) spelling of to_path as seen from a file in from_dir"""
    rel = posixpath.relpath(to_path, from_dir or ".")
    x = r.random()
    if x < 0.3:
        return rel
    if x < 0.5:
        return "./" + rel
    if x < 0.65:
        # redundant segments
        d = posixpath.dirname(rel)
        b = posixpath.basename(rel)
        return posixpath.join(d, ".", b) if d else "./././" + b
    if x < 0.8 and not simple:
        # down into a directory (which need not exist: import paths are normalised textually) and up again
        return "./zz/../" + rel if not rel.startswith("..") else rel
    if x < 0.9 and not simple:
        return posixpath.join(root, to_path)
    return rel


class Project:
    """files: relpath -> text; values: relpath -> int (the `val` the file exports, by construction);
    traces: relpath -> id printed by its TRACE line on every evaluation"""

    def __init__(self):
        self.files = {}
        self.values = {}
        self.ids = {}
        self.imports = {}       # relpath -> [(position, target relpath, spelling)]
        self.entry = None
        self.cyclic = False
        self.decoys = []


def gen_project(r, root, nfiles=None, cyclic=False, positions=None, with_include=True):
    p = Project()
    n = nfiles or r.randint(2, 8)
    paths = []
    for i in range(n):
        d = r.choice(DIRS)
        # one file name in five begins with "std" as well (std3.ucg, stdlib_f3.ucg): still a user file next to its importer
        base = r.choice(["f%d.ucg", "f%d.ucg", "f%d.ucg", "f%d.ucg", "std%d.ucg", "stdlib_f%d.ucg", "f%d.ucg", "f%d.ucg", "f%d.ucg", "f%d.ucg"]) % i
        paths.append(posixpath.join(d, base) if d else base)
    # DAG: file i may import files j > i ; entry is file 0
    edges = {i: [] for i in range(n)}
    for i in range(n):
        for j in range(i + 1, n):
            if r.random() < (0.5 if j == i + 1 else 0.25):
                edges[i].append(j)
    # every file reachable from the entry
    for j in range(1, n):
        if not any(j in edges[i] for i in range(j)):
            edges[r.randrange(j)].append(j)
    back = None
    if cyclic:
        # add one back edge j -> i (i <= j) on a path from the entry
        j = r.randrange(1, n) if n > 1 else 0
        # find an ancestor of j
        anc = [i for i in range(j + 1) if i == j or reach(edges, i, j)]
        i = r.choice(anc)
        back = (j, i)
        p.cyclic = True
    pos_names = positions or list(POSITIONS)
    for i in range(n - 1, -1, -1):
        path = paths[i]
        fid = "F%d" % i
        lines = ["let traceid = TRACE \"%s\";\n" % fid]
        total = i + 1
        p.imports[path] = []
        chks = []
        k = 0
        targets = list(edges[i])
        if back and back[0] == i:
            targets.append(back[1])
        for j in targets:
            # the plain `let x = import "..";` is what programs are made of (and the only form the static checker resolves):
            # a third of all imports use it, the rest is spread over the other positions
            pos = "top-level-let" if ("top-level-let" in pos_names and r.random() < 0.33) else r.choice(pos_names)
            sp = spell(r, posixpath.dirname(path), paths[j], root)
            imp = "import \"%s\"" % sp
            name = "i%d" % k
            k += 1
            lines.append(POSITIONS[pos](imp, name))
            p.imports[path].append((pos, paths[j], sp))
            if not (back and back == (i, j)):
                total += p.values.get(paths[j], 0)
            lines.append("let use_%s = %s;\n" % (name, name))
            # the same file again under another spelling: must be the same value, evaluated once
            if r.random() < 0.4:
                sp2 = spell(r, posixpath.dirname(path), paths[j], root)
                lines.append("let again_%s = (import \"%s\").val;\n" % (name, sp2))
                lines.append("let same_%s = again_%s == %s;\n" % (name, name, name))
                lines.append("let chk_%s = select (same_%s) => {true = 0, false = 1000000};\n" % (name, name))
                chks.append("chk_%s" % name)
                p.imports[path].append(("again", paths[j], sp2))
        val_expr = " + ".join([str(i + 1)] + ["i%d" % x for x in range(k)] + chks)
        lines.append("let val = %s;\n" % val_expr)
        lines.append("let msg = \"m%d\";\n" % i)
        p.values[path] = total
        p.ids[path] = fid
        p.files[path] = "".join(lines)
    # includes: a data file next to some library, included with a relative path
    if with_include and r.random() < 0.6:
        j = r.randrange(n)
        d = posixpath.dirname(paths[j])
        dat = posixpath.join(d, "data%d.txt" % j) if d else "data%d.txt" % j
        p.files[dat] = "payload-%d" % j
        p.files[paths[j]] += "let inc = include str \"%s\";\n" % spell(r, d, dat, root, simple=True)
        p.includes = {paths[j]: ("payload-%d" % j)}
    else:
        p.includes = {}
    # decoys: files with the same base name as a real file, in OTHER directories, that nothing imports.  A resolver that
    # joins a relative import with the wrong directory finds one of them: it exports the same names with other types
    # (type error / wrong value), or imports the entry (bogus cycle), and its TRACE id is not a real file's.
    for j in range(n):
        base = posixpath.basename(paths[j])
        for d2 in DIRS:
            cand = posixpath.join(d2, base) if d2 else base
            if cand in p.files or r.random() < 0.5:
                continue
            if r.random() < 0.5:
                p.files[cand] = "let traceid = TRACE \"DECOY\";\nlet val = \"decoy\";\nlet msg = 1;\n"
            else:
                p.files[cand] = ("let traceid = TRACE \"DECOY\";\nlet back = import \"%s\";\nlet val = back.val;\nlet msg = \"decoy\";\n"
                                 % posixpath.join(root, paths[0]))
            p.decoys.append(cand)
    p.entry = paths[0]
    p.paths = paths
    p.edges = edges
    p.back = back
    # entry writes an artifact with its value
    p.files[p.entry] += "out json {val = val, inc = %s};\n" % ("inc" if p.entry in p.includes else "\"none\"")
    return p


def reach(edges, a, b):
    seen = set()
    st = [a]
    while st:
        x = st.pop()
        if x == b:
            return True
        for y in edges.get(x, []):
            if y not in seen:
                seen.add(y)
                st.append(y)
    return False


def reachable_files(p):
    """library files evaluated by building the entry (acyclic projects)"""
    seen = set()
    st = [0]
    while st:
        x = st.pop()
        if x in seen:
            continue
        seen.add(x)
        st.extend(p.edges[x])
    return [p.paths[i] for i in sorted(seen)]
