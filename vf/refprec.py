"""Precedence oracle for C02: reads the published table out of the language reference at run
time and builds the expected tree by textbook precedence climbing."""
import os
import re

from . import core

DOC = os.path.join(core.REPO, "docsite/site/content/reference/expressions.md")

# documented spelling -> (source spelling accepted by the tokenizer, AST kind name)
OPS = {
    "==": ("==", "Equal"), "!=": ("!=", "NotEqual"), ">=": (">=", "GTEqual"), "<=": ("<=", "LTEqual"),
    "<": ("<", "LT"), ">": (">", "GT"), "=~": ("~", "REMatch"), "~": ("~", "REMatch"), "!~": ("!~", "NotREMatch"),
    "in": ("in", "IN"), "is": ("is", "IS"), "+": ("+", "Add"), "-": ("-", "Sub"), "*": ("*", "Mul"),
    "/": ("/", "Div"), "%%": ("%%", "Mod"), "&&": ("&&", "AND"), "||": ("||", "OR"), ".": (".", "DOT"),
}


def load_table():
    """-> dict source-spelling -> level, read from the reference"""
    try:
        txt = open(DOC, encoding="utf-8").read()
    except OSError as e:
        raise core.HarnessBroken("cannot read %s: %s" % (DOC, e))
    rows = re.findall(r"<tr><td>(.+?)</td><td>(\d+)</td>", txt)
    table = {}
    for op, lvl in rows:
        op = op.replace("&amp;", "&").replace("&lt;", "<").replace("&gt;", ">")
        if op not in OPS:
            raise core.HarnessBroken("unknown operator %r in the published table" % op)
        table[OPS[op][0]] = int(lvl)
    if len(table) != 18:
        raise core.HarnessBroken("published precedence table has %d operators, expected 18" % len(table))
    return table


KIND = {v[0]: v[1] for v in OPS.values()}


def climb(items, table):
    """items: [operand, op, operand, op, ...]; operands are already trees.
    Returns nested ("B", kind, left, right) with higher level tighter, equal level left-assoc."""
    pos = [0]

    def parse(min_level):
        lhs = items[pos[0]]
        pos[0] += 1
        while pos[0] < len(items):
            op = items[pos[0]]
            lvl = table[op]
            if lvl < min_level:
                break
            pos[0] += 1
            rhs = parse(lvl + 1)
            lhs = ("B", KIND[op], lhs, rhs)
        return lhs

    return parse(0)
