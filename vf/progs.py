"""Type-directed random program generator (the "C01 generator").

Types:  "int" "float" "str" "bool" "null"  ("list", T)  ("tuple", ((name, T), ..))
        ("func", (T..), T)  ("module", ((name, T), ..), T)
"""
from . import gen

INT_POOL = [0, 1, 2, 3, 5, 7, 10, 42, 100]
FLOAT_POOL = ["0.0", "1.0", "0.5", "1.5", "2.25", "10.0", "3.75"]
STR_POOL = ["", "a", "b", "ab", "true", "@", "\\", "a b", "x-1", "12", "foo", "bar", "0", "quux", "A", "é", "é",
            # an escape and a multi-byte character in one literal
            "a\"b", "\u00e9 \"q\"", "d\u00e9\\f", "\u4e2d\\\"", "\"", "\u00fc\\"]
ASCII_STR_POOL = [s for s in STR_POOL if all(ord(c) < 128 for c in s)]
FIELD_POOL = ["a", "b", "c", "ok", "desc", "true", "false", "a b", "x-1", "name", "val", "k1", "k2"]
SIMPLE = ["int", "str", "bool", "float"]


class G:
    def __init__(self, rng, depth=4, nstmts=8, p_bad=0.10, firstorder=False, ascii_only=False, features=None):
        self.r = rng
        self.depth = depth
        self.nstmts = nstmts
        self.p_bad = p_bad
        self.firstorder = firstorder
        self.strs = ASCII_STR_POOL if ascii_only else STR_POOL
        self.scope = []          # [(name, type)]
        self.counter = 0
        self.used = {}           # construct histogram
        self.features = features

    # ---------------------------------------------------------------- helpers
    def use(self, k):
        self.used[k] = self.used.get(k, 0) + 1

    def fresh(self, prefix="v"):
        self.counter += 1
        return "%s%d" % (prefix, self.counter)

    def vars_of(self, pred):
        return [(n, t) for n, t in self.scope if pred(t)]

    def rand_simple(self):
        return self.r.choice(SIMPLE)

    def rand_type(self, d=2):
        x = self.r.random()
        if d <= 0 or x < 0.55:
            return self.rand_simple()
        if x < 0.75:
            return ("list", self.rand_simple() if self.r.random() < 0.8 else self.rand_type(d - 1))
        if x < 0.97:
            n = self.r.randint(0, 3)
            names = self.r.sample(FIELD_POOL, n)
            return ("tuple", tuple((nm, self.rand_type(d - 1)) for nm in names))
        return "null"

    # ---------------------------------------------------------------- leaves
    def literal(self, T):
        r = self.r
        if T == "int":
            n = r.choice(INT_POOL)
            if r.random() < 0.1:
                return ("bin", "-", ("int", 0), ("int", n))
            return ("int", n)
        if T == "float":
            return ("float", r.choice(FLOAT_POOL))
        if T == "str":
            return ("str", r.choice(self.strs))
        if T == "bool":
            return ("bool", r.random() < 0.5)
        if T == "null" or T == "any":
            return ("null",)
        if T[0] == "list":
            return ("list", [self.literal(T[1]) for _ in range(r.randint(0, 3))])
        if T[0] == "tuple":
            return ("tuple", [(n, self.literal(t)) for n, t in T[1]])
        if T[0] == "func":
            params = [self.fresh("p") for _ in T[1]]
            return ("func", params, self.literal(T[2]))
        if T[0] == "module":
            return ("module", [(n, self.literal(t)) for n, t in T[1]], None, [("let", "r", self.literal(T[2]))])
        raise ValueError(T)

    def leaf(self, T):
        vs = self.vars_of(lambda t: t == T)
        if vs and self.r.random() < 0.55:
            self.use("sym")
            return ("sym", self.r.choice(vs)[0])
        return self.literal(T)

    # ---------------------------------------------------------------- deliberately failing / ill-typed terms
    def bad(self, T, d):
        r = self.r
        k = r.randint(0, 8)
        self.use("bad:%d" % k)
        if k == 0:
            other = r.choice([t for t in SIMPLE + ["null"] if t != T])
            return self.expr(other, d - 1, nobad=True)
        if k == 1:
            return ("sym", "nope")
        if k == 2:
            vs = self.vars_of(lambda t: isinstance(t, tuple) and t[0] == "tuple")
            if vs:
                return ("sel", ("sym", r.choice(vs)[0]), ("f", "missing"))
            return ("sel", ("tuple", [("a", ("int", 1))]), ("f", "zz"))
        if k == 3:
            vs = self.vars_of(lambda t: isinstance(t, tuple) and t[0] == "list")
            if vs:
                return ("sel", ("sym", r.choice(vs)[0]), ("i", 99))
            return ("sel", ("list", [("int", 1)]), ("i", 5))
        if k == 4:
            fs = self.vars_of(lambda t: isinstance(t, tuple) and t[0] == "func")
            if fs:
                n, t = r.choice(fs)
                return ("call", ("sym", n), [self.leaf(a) for a in t[1]] + [("int", 1)])
            return ("call", ("sym", "nofunc"), [])
        if k == 5:
            return ("select", ("str", "zz"), None, [("a", self.leaf(T))])
        if k == 6:
            return ("cast", "int", ("str", "x1"))
        if k == 7:
            return ("fail", ("str", "boom"))
        return ("cast", "bool", ("str", "maybe"))

    # ---------------------------------------------------------------- typed expressions
    def expr(self, T, d, nobad=False):
        r = self.r
        if not nobad and d > 0 and r.random() < self.p_bad:
            return self.bad(T, d)
        if d <= 0:
            return self.leaf(T)
        if T in ("null", "any"):
            return self.leaf("null")
        if isinstance(T, tuple) and T[0] in ("func", "module"):
            return self.leaf(T)
        alts = getattr(self, "alts_" + (T if isinstance(T, str) else T[0]))(T)
        # generic productions available at every type
        alts += [("leaf", 3), ("select", 2), ("sel", 2), ("call", 2), ("grp", 0.3), ("trace", 0.15)]
        if not self.firstorder:
            alts += [("inlinecall", 0.4)]
        names = [a for a, _ in alts]
        weights = [w for _, w in alts]
        k = r.choices(names, weights)[0]
        return getattr(self, "mk_" + k)(T, d)

    # --- per-type alternative tables
    def alts_int(self, T):
        return [("arith", 5), ("castint", 1), ("reduce_sum", 1), ("mod", 1)]

    def alts_float(self, T):
        return [("farith", 4), ("castfloat", 1)]

    def alts_str(self, T):
        return [("concat", 3), ("fmt", 2.5), ("fmt1", 1), ("caststr", 1), ("mapstr", 0.7), ("filterstr", 0.5)]

    def alts_bool(self, T):
        return [("cmp", 4), ("logic", 4), ("not", 1.5), ("in", 1.5), ("is", 1), ("regex", 0.8), ("castbool", 0.5),
                ("eq", 2)]

    def alts_list(self, T):
        a = [("listlit", 4), ("lconcat", 1.5), ("maplist", 1.5), ("filterlist", 1)]
        if T[1] == "int":
            a.append(("range", 2))
        if T[1] == "str":
            a.append(("reduce_chars", 0.5))
        return a

    def alts_tuple(self, T):
        return [("tuplelit", 4), ("copy", 2), ("filtertuple", 0.7), ("maptuple", 0.7)]

    # --- generic
    def mk_leaf(self, T, d):
        return self.leaf(T)

    def mk_trace(self, T, d):
        self.use("trace")
        return ("trace", self.expr(T, d - 1))

    def mk_grp(self, T, d):
        return ("grp", self.expr(T, d - 1))

    def mk_select(self, T, d):
        r = self.r
        self.use("select")
        keys = r.sample(["a", "b", "foo", "bar", "quux", "x-1", "a b"], r.randint(1, 3))
        usebool = r.random() < 0.35
        if usebool:
            keys = r.sample(["true", "false"], r.randint(1, 2))
            if r.random() < 0.4:
                # arms a boolean can never name: they must never be taken, wherever they sit
                for extra in r.sample(["a", "other", "True", "FALSE", "0", "1", "yes"], r.randint(1, 2)):
                    keys.insert(r.randint(0, len(keys)), extra)
            val = self.expr("bool", d - 1)
        else:
            val = ("str", r.choice(keys + ["zz"])) if r.random() < 0.6 else self.expr("str", d - 1)
        arms = []
        for k in keys:
            # arms that are not selected may fail: they must not be evaluated
            arms.append((k, self.expr(T, d - 1)))
        default = self.expr(T, d - 1) if (r.random() < 0.7 or (len(keys) < 2 and not usebool) or (usebool and not {"true", "false"} <= set(keys))) else None
        if usebool and r.random() < 0.08:
            default = None  # an unhandled case without a default must fail the build
        return ("select", val, default, arms)

    def mk_sel(self, T, d):
        r = self.r
        # select a field of the wanted type from a tuple variable, or build one
        cands = []
        for n, t in self.scope:
            if isinstance(t, tuple) and t[0] == "tuple":
                for fn, ft in t[1]:
                    if ft == T:
                        cands.append(("sel", ("sym", n), ("f", fn)))
            if isinstance(t, tuple) and t[0] == "list" and t[1] == T:
                cands.append(("sel", ("sym", n), ("i", r.randint(0, 2))))
        self.use("sel")
        if cands and r.random() < 0.7:
            e = r.choice(cands)
            if e[2][0] == "f" and r.random() < 0.15:
                # computed selector
                self.use("sel-computed")
                return ("sel", e[1], ("e", ("str", e[2][1])))
            return e
        x = r.random()
        if x < 0.5:
            fn = r.choice(FIELD_POOL)
            other = r.choice(FIELD_POOL)
            flds = [(fn, self.expr(T, d - 1))]
            if other != fn:
                flds.insert(r.randint(0, 1), (other, self.leaf(self.rand_simple())))
            return ("sel", ("tuple", flds), ("f", fn))
        n = r.randint(1, 3)
        i = r.randint(0, n - 1)
        return ("sel", ("list", [self.expr(T, d - 1) if j == i else self.leaf(T) for j in range(n)]), ("i", i))

    def mk_call(self, T, d):
        fs = self.vars_of(lambda t: isinstance(t, tuple) and t[0] == "func" and t[2] == T)
        if fs:
            self.use("call")
            n, t = self.r.choice(fs)
            return ("call", ("sym", n), [self.expr(a, d - 1) for a in t[1]])
        # call through a tuple field
        for n, t in self.scope:
            if isinstance(t, tuple) and t[0] == "tuple":
                for fn, ft in t[1]:
                    if isinstance(ft, tuple) and ft[0] == "func" and ft[2] == T and self.r.random() < 0.5:
                        self.use("call-through-field")
                        return ("call", ("sel", ("sym", n), ("f", fn)), [self.expr(a, d - 1) for a in ft[1]])
        return self.leaf(T)

    def mk_inlinecall(self, T, d):
        return self.leaf(T)

    # --- int
    def mk_arith(self, T, d):
        op = self.r.choice(["+", "+", "-", "*", "/"])
        self.use("arith" + op)
        l = self.expr("int", d - 1)
        r_ = self.expr("int", d - 1)
        if op == "/" and self.r.random() < 0.8:
            r_ = ("int", self.r.choice([1, 2, 3, 5]))
        return ("bin", op, l, r_)

    def mk_mod(self, T, d):
        self.use("mod")
        return ("bin", "%%", self.expr("int", d - 1), ("int", self.r.choice([1, 2, 3, 7])))

    def mk_castint(self, T, d):
        self.use("cast")
        x = self.r.random()
        if x < 0.5:
            return ("cast", "int", ("str", str(self.r.choice(INT_POOL))))
        if x < 0.8:
            return ("cast", "int", self.expr("int", d - 1))
        return ("cast", "int", self.expr("str", d - 1))

    def mk_reduce_sum(self, T, d):
        self.use("reduce")
        acc, it = self.cbparams(2)
        f = ("func", [acc, it], ("bin", "+", ("sym", acc), ("sym", it)))
        return ("reduce", f, self.expr("int", d - 1), self.expr(("list", "int"), d - 1))

    # --- float
    def mk_farith(self, T, d):
        op = self.r.choice(["+", "-", "*", "/"])
        self.use("farith" + op)
        return ("bin", op, self.expr("float", d - 1), self.expr("float", d - 1))

    def mk_castfloat(self, T, d):
        self.use("cast")
        if self.r.random() < 0.5:
            return ("cast", "float", self.expr("int", d - 1))
        return ("cast", "float", ("str", self.r.choice(["1.5", "2", "0.25", "x"])))

    # --- str
    def mk_concat(self, T, d):
        self.use("concat")
        return ("bin", "+", self.expr("str", d - 1), self.expr("str", d - 1))

    def mk_fmt(self, T, d):
        r = self.r
        self.use("fmt")
        n = r.randint(0, 3)
        parts = []
        args = []
        for i in range(n):
            if r.random() < 0.7:
                parts.append(("lit", r.choice(["", "x", "@", "\\", " = ", "a b", "%", "{", "}"])))
            parts.append(("ph",))
            args.append(self.expr(r.choice(["int", "str", "bool"]), d - 1))
        if n == 0:
            # the grammar requires at least one argument
            parts.append(("ph",))
            args.append(self.expr(r.choice(["int", "str", "bool"]), d - 1))
        if r.random() < 0.6:
            parts.append(("lit", r.choice(["end", "@", "\\", ".", "q"])))
        if r.random() < 0.06:
            # count mismatch: must fail
            self.use("fmt-mismatch")
            if len(args) > 1 and r.random() < 0.5:
                args = args[:-1]
            else:
                args = args + [("int", 1)]
        return ("fmt", parts, args)

    def mk_fmt1(self, T, d):
        r = self.r
        self.use("fmt1")
        x = r.random()
        if x < 0.5:
            argT = ("tuple", (("a", "int"), ("b", "str")))
            arg = self.expr(argT, d - 1)
            embedded = [("sel", ("sym", "item"), ("f", "a")), ("sel", ("sym", "item"), ("f", "b")),
                        ("bin", "+", ("sel", ("sym", "item"), ("f", "a")), ("int", 1))]
        elif x < 0.8:
            arg = self.expr("int", d - 1)
            embedded = [("sym", "item"), ("bin", "*", ("sym", "item"), ("int", 2))]
        else:
            arg = self.expr("str", d - 1)
            embedded = [("sym", "item"), ("bin", "+", ("sym", "item"), ("str", "!"))]
        parts = []
        for i in range(r.randint(1, 3)):
            if r.random() < 0.7:
                parts.append(("lit", r.choice(["", "x", "@", " = ", "a b", "%"])))
            parts.append(("e", r.choice(embedded)))
        if r.random() < 0.5:
            parts.append(("lit", r.choice(["end", ".", "q"])))
        # the argument of the single form must not start with "(" (that selects the simple form)
        if arg[0] not in ("sym", "tuple", "int", "str", "sel", "call", "copy"):
            name = None
            for n, t in self.scope:
                if (x < 0.5 and t == ("tuple", (("a", "int"), ("b", "str")))) or (0.5 <= x < 0.8 and t == "int") or (
                        x >= 0.8 and t == "str"):
                    name = n
            if name is None:
                arg = self.literal(("tuple", (("a", "int"), ("b", "str"))) if x < 0.5 else ("int" if x < 0.8 else "str"))
            else:
                arg = ("sym", name)
        if arg[0] == "sel" and arg[1][0] not in ("sym", "sel"):
            arg = self.literal(("tuple", (("a", "int"), ("b", "str"))) if x < 0.5 else ("int" if x < 0.8 else "str"))
        return ("fmt1", parts, arg)

    def mk_caststr(self, T, d):
        self.use("cast")
        return ("cast", "str", self.expr(self.r.choice(["int", "bool", "str"]), d - 1))

    def mk_mapstr(self, T, d):
        self.use("map-str")
        (p,) = self.cbparams(1)
        body = self.r.choice([("bin", "+", ("sym", p), ("sym", p)), ("sym", p), ("bin", "+", ("sym", p), ("str", "-"))])
        return ("map", ("func", [p], body), self.expr("str", d - 1))

    def mk_filterstr(self, T, d):
        self.use("filter-str")
        (p,) = self.cbparams(1)
        body = self.r.choice([("bin", "!=", ("sym", p), ("str", self.r.choice(["a", "b", " ", "o"])))] * 3 +
                             [("sym", p), ("null",), ("int", 0), ("str", "")])
        return ("filter", ("func", [p], body), self.expr("str", d - 1))

    # --- bool
    def mk_cmp(self, T, d):
        op = self.r.choice(["<", ">", "<=", ">="])
        self.use("cmp")
        t = self.r.choice(["int", "int", "float"])
        return ("bin", op, self.expr(t, d - 1), self.expr(t, d - 1))

    def mk_eq(self, T, d):
        op = self.r.choice(["==", "!="])
        self.use("eq")
        t = self.rand_type(1) if self.r.random() < 0.5 else self.rand_simple()
        l = self.expr(t, d - 1)
        r_ = self.expr(t, d - 1)
        if self.r.random() < 0.15:
            r_ = ("null",)
        elif self.r.random() < 0.12:
            # the same fields with the same values in another order: tuples are ordered, so these are NOT equal
            names = self.r.sample([n for n in FIELD_POOL if gen.BAREWORD_RE.match(n) and n not in ("true", "false")], self.r.randint(2, 3))
            vals = [self.literal(self.rand_simple()) for _ in names]
            flds = list(zip(names, vals))
            perm = flds[1:] + flds[:1]
            self.use("eq-permuted-tuple")
            l, r_ = ("tuple", flds), ("tuple", perm)
            if self.r.random() < 0.3:
                return ("bin", "in", l, ("list", [r_]))
        return ("bin", op, l, r_)

    def mk_logic(self, T, d):
        op = self.r.choice(["&&", "||"])
        self.use("logic")
        l = self.expr("bool", d - 1)
        x = self.r.random()
        if self.p_bad == 0.0:
            x = 1.0     # well-typed mode: no deliberately ill-typed operands, not even dead ones
        if x < 0.2:
            # the right operand fails: it must not be evaluated when the left decides
            self.use("logic-shortcircuit-guard")
            l = ("bool", op == "||")
            return ("bin", op, l, self.bad("bool", d - 1))
        if x < 0.24:
            # left does not decide and the right operand is not a boolean: both sides are
            # required to be boolean, so this must fail
            self.use("logic-nonbool-right")
            return ("bin", op, ("bool", op == "&&"), self.leaf(self.r.choice(["int", "str", "float"])))
        return ("bin", op, l, self.expr("bool", d - 1))

    def mk_not(self, T, d):
        self.use("not")
        return ("not", self.expr("bool", d - 1))

    def mk_in(self, T, d):
        r = self.r
        self.use("in")
        x = r.random()
        if x < 0.4:
            fn = r.choice(FIELD_POOL)
            tt = self.rand_type(1)
            while not (isinstance(tt, tuple) and tt[0] == "tuple"):
                tt = ("tuple", tuple((n, self.rand_simple()) for n in r.sample(FIELD_POOL, r.randint(0, 3))))
            left = ("str", fn) if (r.random() < 0.6 or not gen.BAREWORD_RE.match(fn) or fn in gen.RESERVED) else ("sym", fn)
            return ("bin", "in", left, self.expr(tt, d - 1))
        t = self.rand_simple()
        return ("bin", "in", self.expr(t, d - 1), self.expr(("list", t), d - 1))

    def mk_is(self, T, d):
        self.use("is")
        t = self.rand_type(1)
        name = self.r.choice(["null", "str", "int", "float", "tuple", "list", "func", "module", "bool"])
        return ("bin", "is", self.expr(t, d - 1), ("str", name))

    def mk_regex(self, T, d):
        self.use("regex")
        pat = self.r.choice(["a", "^a", "b$", "a+", "[ab]", "o.", "x*", "^$", "a b"])
        return ("bin", self.r.choice(["~", "!~"]), self.expr("str", d - 1), ("str", pat))

    def mk_castbool(self, T, d):
        self.use("cast")
        return ("cast", "bool", ("str", self.r.choice(["true", "false"])) if self.r.random() < 0.7 else self.expr("bool", d - 1))

    # --- list
    def mk_listlit(self, T, d):
        self.use("list")
        return ("list", [self.expr(T[1], d - 1) for _ in range(self.r.randint(0, 3))])

    def mk_lconcat(self, T, d):
        self.use("list-concat")
        return ("bin", "+", self.expr(T, d - 1), self.expr(T, d - 1))

    def mk_range(self, T, d):
        r = self.r
        self.use("range")
        a = ("int", r.randint(0, 5))
        b = ("int", r.randint(0, 9))
        if r.random() < 0.3:
            b = self.leaf("int")
        step = None
        if r.random() < 0.4:
            step = ("int", r.choice([1, 2, 3, 0])) if r.random() < 0.9 else ("bin", "-", ("int", 0), ("int", 1))
        if r.random() < 0.2:
            a = ("bin", "+", a, ("int", 1))
        return ("range", a, step, b)

    def cbparams(self, n):
        """n distinct callback parameter names: fresh ones, or (p=0.2 each) the name of an existing value binding,
        which the parameter then shadows inside the callback only"""
        out = []
        cands = [nm for nm, t in self.scope if not (isinstance(t, tuple) and t[0] in ("func", "module"))]
        for _ in range(n):
            nm = None
            if cands and self.r.random() < 0.2:
                c = self.r.choice(cands)
                if c not in out:
                    nm = c
                    self.use("callback-param-shadows")
            out.append(nm or self.fresh("p"))
        return out

    def in_scope(self, params, fn):
        saved = self.scope
        names = set(n for n, _ in params)
        self.scope = [(n, t) for n, t in saved if n not in names] + list(params)
        try:
            return fn()
        finally:
            self.scope = saved

    def mk_maplist(self, T, d):
        self.use("map-list")
        (p,) = self.cbparams(1)
        src = self.rand_simple()
        # body of type T[1] over a parameter of type src
        body = self.in_scope([(p, src)], lambda: self.expr(T[1], d - 1))
        return ("map", ("func", [p], body), self.expr(("list", src), d - 1))

    def mk_filterlist(self, T, d):
        self.use("filter-list")
        (p,) = self.cbparams(1)
        body = self.in_scope([(p, T[1])], lambda: self.expr("bool", d - 1) if self.r.random() < 0.8 else self.r.choice([("null",), ("sym", p)]))
        return ("filter", ("func", [p], body), self.expr(T, d - 1))

    def mk_reduce_chars(self, T, d):
        self.use("reduce-str")
        acc, it = self.cbparams(2)
        f = ("func", [acc, it], ("bin", "+", ("sym", acc), ("list", [("sym", it)])))
        return ("reduce", f, ("list", []), self.expr("str", d - 1))

    # --- tuple
    def mk_tuplelit(self, T, d):
        self.use("tuple")
        return ("tuple", [(n, self.expr(t, d - 1)) for n, t in T[1]])

    def mk_copy(self, T, d):
        r = self.r
        vs = self.vars_of(lambda t: t == T)
        if not vs or not T[1]:
            return self.mk_tuplelit(T, d)
        self.use("copy")
        n = r.choice(vs)[0]
        flds = []
        for fn, ft in r.sample(list(T[1]), r.randint(0, len(T[1]))):
            x = r.random()
            if x < 0.25 and ft == "int":
                self.use("copy-self")
                flds.append((fn, ("bin", "+", ("sel", ("sym", "self"), ("f", fn)), ("int", 1))))
            elif x < 0.33:
                self.use("copy-null")
                flds.append((fn, ("null",)))
            else:
                flds.append((fn, self.expr(ft, d - 1)))
        return ("copy", ("sym", n), flds)

    def mk_filtertuple(self, T, d):
        self.use("filter-tuple")
        k, v = self.cbparams(2)
        names = [n for n, _ in T[1]] or ["a"]
        body = self.r.choice([("bin", "!=", ("sym", k), ("str", "zz")), ("bool", True), ("bin", "in", ("sym", k), ("list", [("str", n) for n in names])),
                              # the reference: false or NULL drops the field, ANY other result keeps it
                              ("sym", v), ("sym", k), ("null",), ("int", 0), ("str", ""), ("list", []), ("bool", False),
                              ("bin", "==", ("sym", k), ("str", names[0]))])
        return ("filter", ("func", [k, v], body), self.expr(T, d - 1))

    def mk_maptuple(self, T, d):
        self.use("map-tuple")
        k, v = self.cbparams(2)
        body = ("list", [("sym", k), ("sym", v)])
        return ("map", ("func", [k, v], body), self.expr(T, d - 1))

    # ---------------------------------------------------------------- free-form (type computed) statements
    def stmt_func(self, d):
        r = self.r
        nargs = r.randint(0, 3)
        ats = tuple(self.rand_simple() if r.random() < 0.8 else self.rand_type(1) for _ in range(nargs))
        ret = self.rand_type(1)
        params = [self.fresh("p") for _ in ats]
        if r.random() < 0.15 and self.scope:
            # a parameter that shadows an existing binding
            params[0:1] = [r.choice(self.scope)[0]] if params else []
        saved = list(self.scope)
        self.scope = [(n, t) for n, t in self.scope if n not in params] + list(zip(params, ats))
        body = self.expr(ret, d - 1)
        self.scope = saved
        self.use("func")
        name = self.fresh("f")
        return ("let", name, ("func", params, body)), ("func", ats, ret)

    def stmt_record_func(self, stmts):
        """a function (or map callback) whose untyped parameter is used as a record: several different fields,
        nested fields, selected more than once - appends the definition and a use to stmts"""
        r = self.r
        self.use("record-func")
        T = r.choice(["int", "float", "str"])
        U = self.rand_simple()
        names = r.sample(FIELD_POOL, 4)
        inner = ("tuple", ((names[0], T), (names[1], T)))
        tt = ("tuple", ((names[0], T), (names[1], T), (names[2], U), (names[3], inner)))
        p = self.fresh("p")
        sel = lambda base, n: ("sel", base, ("f", n))
        P = ("sym", p)
        a, b, c = sel(P, names[0]), sel(P, names[1]), sel(P, names[2])
        na, nb = sel(sel(P, names[3]), names[0]), sel(sel(P, names[3]), names[1])
        op = "+" if T == "str" else r.choice(["+", "+", "-", "*"])
        k = r.randrange(9)
        if k == 7:
            # three and four different fields of the one parameter
            names2 = r.sample([n for n in FIELD_POOL if n not in names], 2)
            tt = ("tuple", tt[1] + ((names2[0], T), (names2[1], T)))
            d_, e_ = sel(P, names2[0]), sel(P, names2[1])
            body, ret = ("bin", op, ("bin", op, ("bin", op, a, b), d_), e_), T
        elif k == 8:
            names2 = r.sample([n for n in FIELD_POOL if n not in names], 1)
            tt = ("tuple", tt[1] + ((names2[0], U),))
            body, ret = ("list", [("list", [a, b]), ("list", [c, sel(P, names2[0])]), ("list", [na])]), None
        elif k == 0:
            body, ret = ("bin", op, a, b), T
        elif k == 1:
            body, ret = ("list", [a, b]), ("list", T)
        elif k == 2:
            body, ret = ("tuple", [("x", a), ("y", c)]), ("tuple", (("x", T), ("y", U)))
        elif k == 3:
            body, ret = ("bin", op, ("bin", op, a, b), a), T
        elif k == 4:
            body, ret = ("bin", op, na, nb), T
        elif k == 5:
            body, ret = ("bin", op, na, b), T
        else:
            body, ret = ("bin", "==", c, c), "bool"
        arg = self.literal(tt) if r.random() < 0.6 else self.expr(tt, 1, nobad=True)
        if ret is None:
            # result type not tracked: the function is defined and called, the result bound but not used again
            f = self.fresh("f")
            stmts.append(("let", f, ("func", [p], body)))
            stmts.append(("let", self.fresh(), ("call", ("sym", f), [arg])))
            return
        if r.random() < 0.7:
            f = self.fresh("f")
            stmts.append(("let", f, ("func", [p], body)))
            self.scope.append((f, ("func", (tt,), ret)))
            v = self.fresh()
            stmts.append(("let", v, ("call", ("sym", f), [arg])))
            self.scope.append((v, ret))
        else:
            v = self.fresh()
            stmts.append(("let", v, ("map", ("func", [p], body), ("list", [arg]))))
            self.scope.append((v, ("list", ret)))

    def stmt_append_func(self, stmts):
        """a two-parameter function whose second parameter is named like a binding of the caller that has another type and is
        used inside a composite literal combined with the first parameter; the caller's binding is used again afterwards"""
        r = self.r
        outer = [(nm, t) for nm, t in self.scope if t in SIMPLE and gen.BAREWORD_RE.match(nm) and nm not in gen.RESERVED]
        if not outer:
            return False
        self.use("append-func-param-named-like-binding")
        nm, at = r.choice(outer)
        T = r.choice([t for t in SIMPLE if t != at])
        a = self.fresh("p")
        k = r.randrange(4)
        A, B = ("sym", a), ("sym", nm)
        if k == 0:
            body, pt, ret = ("bin", "+", A, ("list", [B])), ("list", T), ("list", T)
        elif k == 1:
            body, pt, ret = ("bin", "+", ("list", [B]), A), ("list", T), ("list", T)
        elif k == 2:
            body, pt, ret = ("copy", A, [("x", B)]), ("tuple", (("x", T),)), ("tuple", (("x", T),))
        else:
            body, pt, ret = ("list", [A, ("list", [B])]), T, None
        f = self.fresh("f")
        stmts.append(("let", f, ("func", [a, nm], body)))
        v = self.fresh()
        stmts.append(("let", v, ("call", ("sym", f), [self.literal(pt), self.literal(T)])))
        if ret is not None:
            self.scope.append((v, ret))
        # the caller's binding still has its own type
        use = {"int": ("bin", "+", B, ("int", 1)), "str": ("bin", "+", B, ("str", "x")), "bool": ("bin", "&&", B, ("bool", True)),
               "float": ("bin", "+", B, ("float", "0.5"))}[at]
        w = self.fresh()
        stmts.append(("let", w, use))
        self.scope.append((w, at))
        return True

    def stmt_tuple_ops(self, stmts):
        """operations whose result type is computed from the operand: map over a tuple that renames fields or changes the
        values, reduce over a tuple, copy that appends fields - appends one let statement"""
        r = self.r
        names = r.sample([n for n in FIELD_POOL if gen.BAREWORD_RE.match(n) and n not in ("true", "false")], r.randint(1, 3))
        VT = r.choice(["int", "str"])
        tt = ("tuple", tuple((n, VT) for n in names))
        src = self.leaf(tt) if r.random() < 0.5 else self.literal(tt)
        k, v, acc = self.fresh("p"), self.fresh("p"), self.fresh("p")
        K, V, A = ("sym", k), ("sym", v), ("sym", acc)
        kind = r.randrange(10)
        self.use("tuple-op-%d" % kind)
        if kind == 9:
            # a callback over a tuple that does not return [name, value]: the map must fail, not drop the field
            body = r.choice([V, K, ("list", [K]), ("list", [K, V, V]), ("list", [V, K]) if VT == "int" else ("list", [("int", 1), V]), ("tuple", [("k", K), ("v", V)]), ("null",)])
            nm = self.fresh()
            stmts.append(("let", nm, ("map", ("func", [k, v], body), src)))
            return
        if kind == 0:      # rename every field
            e = ("map", ("func", [k, v], ("list", [("bin", "+", K, ("str", "x")), V])), src)
            T = ("tuple", tuple((n + "x", VT) for n in names))
        elif kind == 1:    # replace every value by a constant of another type
            e = ("map", ("func", [k, v], ("list", [K, ("bool", True)])), src)
            T = ("tuple", tuple((n, "bool") for n in names))
        elif kind == 2:    # value becomes a list holding the value
            e = ("map", ("func", [k, v], ("list", [K, ("list", [V])])), src)
            T = ("tuple", tuple((n, ("list", VT)) for n in names))
        elif kind == 3:    # names collected by reduce
            e = ("reduce", ("func", [acc, k, v], ("bin", "+", A, ("list", [K]))), ("list", []), src)
            T = ("list", "str")
        elif kind == 4:    # fields counted by reduce
            e = ("reduce", ("func", [acc, k, v], ("bin", "+", A, ("int", 1))), ("int", 0), src)
            T = "int"
        elif kind == 5:    # values folded by reduce
            e = ("reduce", ("func", [acc, k, v], ("bin", "+", A, V)), self.literal(VT), src)
            T = VT
        elif kind == 6:    # copy appends a new field (and may override an old one)
            new = r.choice(["zed", "extra", "q9"])
            flds = [(new, self.literal("bool"))]
            if r.random() < 0.5:
                flds.insert(r.randint(0, 1), (names[0], self.literal(VT)))
            if src[0] != "sym":
                nm = self.fresh()
                stmts.append(("let", nm, src))
                self.scope.append((nm, tt))
                src = ("sym", nm)
            e = ("copy", src, flds)
            T = ("tuple", tuple((n, VT) for n in names) + ((new, "bool"),))
        elif kind == 7:    # reduce over a tuple building a tuple through copy is not first-order friendly: filter by value instead
            e = ("filter", ("func", [k, v], ("bin", "!=", V, self.literal(VT))), src)
            T = None        # which fields survive depends on the values
        else:              # map over a list of tuples selecting two fields
            e = ("map", ("func", [k], ("list", [("sel", K, ("f", names[0])), ("sel", K, ("f", names[-1]))])), ("list", [src, src]))
            T = ("list", ("list", VT))
        nm = self.fresh()
        stmts.append(("let", nm, e))
        if T is not None:
            self.scope.append((nm, T))

    def stmt_copy_self_after_call(self, stmts):
        """a tuple copy whose field list first runs something with a frame of its own (module instantiation, function call,
        callback, nested copy) and then reads `self`: `self` must still be the base tuple of THIS copy"""
        r = self.r
        names = r.sample(["a", "b", "c", "port", "n"], r.randint(2, 3))
        tt = ("tuple", tuple((n, "int") for n in names))
        t = self.fresh("t")
        stmts.append(("let", t, ("tuple", [(n, ("int", r.randint(0, 9))) for n in names])))
        self.scope.append((t, tt))
        m = self.fresh("M")
        stmts.append(("let", m, ("module", [("a", ("int", 1))], ("sym", "r"), [("let", "r", ("bin", "+", ("sel", ("sym", "mod"), ("f", "a")), ("int", 1)))])))
        self.scope.append((m, ("module", (("a", "int"),), "int")))
        f = self.fresh("f")
        q = self.fresh("p")
        stmts.append(("let", f, ("func", [q], ("bin", "+", ("sym", q), ("int", 1)))))
        self.scope.append((f, ("func", ("int",), "int")))
        n0, n1 = names[0], names[1]
        T, S = ("sym", t), ("sym", "self")
        inst = ("copy", ("sym", m), [("a", ("int", r.randint(0, 5)))])
        call = ("call", ("sym", f), [("int", r.randint(0, 5))])
        kind = r.randrange(8)
        self.use("copy-self-after-%d" % kind)
        if kind == 0:
            e = ("copy", T, [(n0, inst), (n1, ("bin", "+", ("sel", S, ("f", n0)), ("int", 1)))])
        elif kind == 1:
            e = ("copy", T, [(n0, call), (n1, ("bin", "+", ("sel", S, ("f", n1)), ("int", 1)))])
        elif kind == 2:
            e = ("copy", T, [(n0, ("sel", ("list", [inst, ("sel", S, ("f", n1))]), ("i", 1)))])
        elif kind == 3:
            e = ("copy", T, [(n0, ("sel", ("copy", T, [(n0, inst), (n1, ("sel", S, ("f", n0)))]), ("f", n1))), (n1, ("sel", S, ("f", n0)))])
        elif kind == 4:
            cb = self.fresh("p")
            e = ("copy", T, [(n0, ("sel", ("map", ("func", [cb], ("bin", "+", ("sym", cb), ("int", 1))), ("list", [("int", 1)])), ("i", 0))),
                             (n1, ("sel", S, ("f", n0)))])
        elif kind == 5:
            e = ("copy", T, [(n0, ("select", ("bool", True), ("int", 0), [("true", inst)])), (n1, ("bin", "+", ("sel", S, ("f", n0)), ("int", 1)))])
        elif kind == 6:
            # the instantiation sits one copy further in, the reads of self one and two copies out
            e = ("copy", T, [(n0, ("sel", ("copy", T, [(n0, ("sel", ("copy", T, [(n0, inst)]), ("f", n0))), (n1, ("bin", "+", ("sel", S, ("f", n1)), ("int", 10)))]), ("f", n1))),
                             (n1, ("bin", "+", ("sel", S, ("f", n1)), ("int", 100)))])
        else:
            e = ("copy", T, [(n1, ("bin", "+", ("sel", S, ("f", n1)), ("int", 1))), (n0, inst), (n1, ("bin", "+", ("sel", S, ("f", n0)), call))]) if False else \
                ("copy", T, [(n1, ("bin", "+", inst, ("sel", S, ("f", n1)))), (n0, ("bin", "+", call, ("sel", S, ("f", n0))))])
        nm = self.fresh()
        stmts.append(("let", nm, e))
        self.scope.append((nm, tt))

    def stmt_module(self, d):
        r = self.r
        self.use("module")
        pn = r.sample(["a", "b", "c", "name", "val"], r.randint(0, 3))
        pts = [(n, self.rand_simple()) for n in pn]
        saved = list(self.scope)
        # parameter defaults are evaluated in the defining scope
        params = [(n, self.expr(t, 1)) for n, t in pts]
        # the body sees only `mod`
        self.scope = [("mod", ("tuple", tuple(pts)))]
        body = []
        nb = r.randint(0, 3)
        btypes = []
        for i in range(nb):
            t = self.rand_simple()
            nm = "m%d" % i
            body.append(("let", nm, self.expr(t, d - 1)))
            self.scope.append((nm, t))
            btypes.append((nm, t))
        out = None
        rt = ("tuple", tuple(sorted(btypes)))
        if r.random() < 0.45:
            rt = self.rand_simple()
            out = self.expr(rt, d - 1)
            self.use("module-out")
        if r.random() < 0.08 and saved:
            # a reference to the surrounding file: must fail when instantiated
            self.use("module-outer-ref")
            body.append(("let", "leak", ("sym", saved[0][0])))
        self.scope = saved
        name = self.fresh("M")
        return ("let", name, ("module", params, out, body)), ("module", tuple(pts), rt)

    def stmt_instantiate(self, d):
        ms = self.vars_of(lambda t: isinstance(t, tuple) and t[0] == "module")
        if not ms:
            return None
        self.use("module-instantiate")
        n, t = self.r.choice(ms)
        ov = []
        for pn, pt in self.r.sample(list(t[1]), self.r.randint(0, len(t[1]))):
            ov.append((pn, self.expr(pt, d - 1)))
        if self.r.random() < 0.1:
            ov.append(("extra", ("int", 1)))
        return ("let", self.fresh(), ("copy", ("sym", n), ov)), t[2]

    def stmt_recursive_module(self):
        """mod.this recursion with an explicit base case"""
        self.use("module-recursive")
        name = self.fresh("M")
        body = [("let", "r", ("select", ("bin", "<", ("sel", ("sym", "mod"), ("f", "n")), ("sel", ("sym", "mod"), ("f", "stop"))),
                              None,
                              [("true", ("bin", "+", ("list", [("sel", ("sym", "mod"), ("f", "n"))]),
                                         ("copy", ("sel", ("sym", "mod"), ("f", "this")),
                                          [("n", ("bin", "+", ("sel", ("sym", "mod"), ("f", "n")), ("int", 1)))]))),
                               ("false", ("list", [("sel", ("sym", "mod"), ("f", "n"))]))]))]
        m = ("module", [("n", ("int", 0)), ("stop", ("int", self.r.randint(0, 4)))], ("sym", "r"), body)
        return ("let", name, m), ("module", (("n", "int"), ("stop", "int")), ("list", "int"))

    def program(self):
        r = self.r
        stmts = []
        n = r.randint(2, self.nstmts)
        for i in range(n):
            x = r.random()
            d = r.randint(1, self.depth)
            res = None
            if x < 0.12:
                res = self.stmt_func(d)
            elif x < 0.19:
                res = self.stmt_module(d)
            elif x < 0.27:
                res = self.stmt_instantiate(d)
            elif x < 0.29:
                res = self.stmt_recursive_module()
            elif x < 0.36:
                T = self.rand_type(2)
                self.use("stmt-expr")
                stmts.append(("expr", self.expr(T, d)))
                continue
            elif x < 0.39:
                self.stmt_record_func(stmts)
                continue
            elif x < 0.42:
                if r.random() < 0.35 and self.stmt_append_func(stmts):
                    continue
                if r.random() < 0.3:
                    self.stmt_copy_self_after_call(stmts)
                    continue
                self.stmt_tuple_ops(stmts)
                continue
            elif x < 0.45:
                # tuple holding a function: exercises calls through tuple fields
                self.use("tuple-with-func")
                p = self.fresh("p")
                rt = self.rand_simple()
                outer = [(nm, t) for nm, t in self.scope if t in SIMPLE and gen.BAREWORD_RE.match(nm) and nm not in gen.RESERVED]
                if outer and r.random() < 0.4:
                    # a field named like a binding of the caller, with another type; the call passes the CALLER's binding
                    self.use("tuple-with-func-field-named-like-binding")
                    nm, at = r.choice(outer)
                    other = r.choice([t for t in SIMPLE if t != at])
                    self.scope.append((p, at))
                    body = self.expr(rt, 1)
                    self.scope.pop()
                    tname = self.fresh("t")
                    stmts.append(("let", tname, ("tuple", [(nm, self.literal(other)), ("f", ("func", [p], body))])))
                    self.scope.append((tname, ("tuple", ((nm, other), ("f", ("func", (at,), rt))))))
                    v = self.fresh()
                    stmts.append(("let", v, ("call", ("sel", ("sym", tname), ("f", "f")), [("sym", nm)])))
                    self.scope.append((v, rt))
                    continue
                self.scope.append((p, "int"))
                body = self.expr(rt, 1)
                self.scope.pop()
                T = ("tuple", (("f", ("func", ("int",), rt)), ("n", "int")))
                res = (("let", self.fresh("t"), ("tuple", [("f", ("func", [p], body)), ("n", self.leaf("int"))])), T)
            if res is None:
                T = self.rand_type(2)
                res = (("let", self.fresh(), self.expr(T, d)), T)
            st, T = res
            stmts.append(st)
            self.scope.append((st[1], T))
        return stmts


def gen_program(rng, **kw):
    if "p_bad" not in kw:
        # most programs are meant to succeed; some carry a few, some many failing sub-terms
        kw["p_bad"] = rng.choice([0.0, 0.0, 0.0, 0.0, 0.01, 0.02, 0.03, 0.05, 0.1])
    g = G(rng, **kw)
    return g.program(), g.used


# construct kinds of a program (for the evidence histogram / non-triviality rule)
TAGS = {"int", "float", "str", "bool", "null", "sym", "list", "tuple", "bin", "sel", "not", "fail", "trace", "convert",
        "copy", "call", "cast", "func", "select", "map", "filter", "reduce", "module", "fmt", "fmt1", "range", "grp",
        "let", "expr", "assert"}


def kinds(node, acc=None):
    if acc is None:
        acc = set()
    if isinstance(node, tuple) and node and isinstance(node[0], str) and node[0] in TAGS and not (
            len(node) == 2 and isinstance(node[1], tuple) and node[0] not in ("not", "fail", "trace", "grp", "expr", "assert")):
        acc.add(node[0] + (":" + node[1] if node[0] == "bin" else ""))
        for x in node[1:]:
            kinds(x, acc)
    elif isinstance(node, (list, tuple)):
        for x in node:
            kinds(x, acc)
    return acc
