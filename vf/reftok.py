"""Reference tokenizer for C11: maximal munch, written from the grammar reference
(docsite/site/content/reference/grammar.md, types.md, expressions.md).  Works on code
points, tracks byte offset, line (LF count + 1) and column in both units (bytes / code points)."""

PUNCT = ["..", ".", "&&", "||", "|", "+", "-", "*", "/", "%%", "%", "==", "!=", "!~", "~", ">=", "<=", ">", "<", "=>",
         "=", ";", "::", ":", "[", "]", "{", "}", "(", ")", ","]
PUNCT_SORTED = sorted(PUNCT, key=lambda p: -len(p))
WS = " \t\r\n"


def is_alpha(c):
    return ("a" <= c <= "z") or ("A" <= c <= "Z")


def is_digit(c):
    return "0" <= c <= "9"


def is_symch(c):
    return is_alpha(c) or is_digit(c) or c in "-_"


class TokError(Exception):
    def __init__(self, msg, line, col_b, col_c, off):
        Exception.__init__(self, msg)
        self.line, self.col_b, self.col_c, self.off = line, col_b, col_c, off


def decode_string(text, i):
    """text[i] is the opening quote; -> (value, index after closing quote) or None if unterminated.
    Documented escapes: \\n \\r \\t; any other \\x stands for x itself."""
    out = []
    j = i + 1
    n = len(text)
    while j < n:
        c = text[j]
        if c == "\\":
            if j + 1 >= n:
                return None
            d = text[j + 1]
            out.append({"n": "\n", "r": "\r", "t": "\t"}.get(d, d))
            j += 2
            continue
        if c == '"':
            return "".join(out), j + 1
        out.append(c)
        j += 1
    return None


def tokenize(text, keep_comments=False):
    """-> list of (typ, fragment, line, col_bytes, col_chars, byte_offset); ends with END.
    Raises TokError where no token can start."""
    toks = []
    i = 0
    n = len(text)
    line = 1
    col_b = col_c = 1
    off = 0

    def advance(k):
        nonlocal i, line, col_b, col_c, off
        for ch in text[i:i + k]:
            b = len(ch.encode("utf-8"))
            off += b
            if ch == "\n":
                line += 1
                col_b = col_c = 1
            else:
                col_b += b
                col_c += 1
        i += k

    while i < n:
        c = text[i]
        if c in WS:
            advance(1)
            continue
        start = (line, col_b, col_c, off)
        if text.startswith("//", i):
            j = i + 2
            while j < n and text[j] != "\n":
                j += 1
            body = text[i + 2:j]
            if body.endswith("\r"):
                body = body[:-1]
            if keep_comments:
                toks.append(("COMMENT", body) + start)
            advance(j - i)
            continue
        if c == '"':
            r = decode_string(text, i)
            if r is None:
                raise TokError("unterminated string", *start)
            val, j = r
            toks.append(("QUOTED", val) + start)
            advance(j - i)
            continue
        if is_digit(c):
            j = i
            while j < n and is_digit(text[j]):
                j += 1
            toks.append(("DIGIT", text[i:j]) + start)
            advance(j - i)
            continue
        if is_alpha(c):
            j = i
            while j < n and is_symch(text[j]):
                j += 1
            w = text[i:j]
            if w == "NULL":
                toks.append(("EMPTY", w) + start)
            elif w in ("true", "false"):
                toks.append(("BOOLEAN", w) + start)
            else:
                toks.append(("BAREWORD", w) + start)
            advance(j - i)
            continue
        for p in PUNCT_SORTED:
            if text.startswith(p, i):
                toks.append(("PUNCT", p) + start)
                advance(len(p))
                break
        else:
            raise TokError("no token starts here", *start)
    toks.append(("END", "", line, col_b, col_c, off))
    return toks
