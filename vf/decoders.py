"""Independent strict decoders (CPython json / tomllib, libyaml's event parser with my own YAML 1.2
core-schema resolver, expat) and the comparison of decoded data with tagged values."""
import json
import math
import re
import struct
import tomllib
from fractions import Fraction

import yaml

HAVE_LIBYAML = bool(getattr(yaml, "__with_libyaml__", False)) and hasattr(yaml, "CLoader")


class DecodeError(Exception):
    pass


class Num:
    """a decoded number: exact rational or one of inf/-inf/nan; remembers whether it was written as an int"""

    def __init__(self, frac=None, special=None, is_int=False):
        self.frac = frac
        self.special = special
        self.is_int = is_int

    def __eq__(self, other):
        if not isinstance(other, Num):
            return False
        if self.special or other.special:
            return self.special == other.special
        return self.frac == other.frac

    def __repr__(self):
        if self.special:
            return "Num(%s)" % self.special
        try:
            if self.is_int and abs(self.frac) < 10 ** 40:
                return "Num(%di)" % int(self.frac)
            return "Num(%r)" % float(self.frac)
        except (OverflowError, ValueError):
            return "Num(<huge>)"


def num_from_float(x):
    if math.isnan(x):
        return Num(special="nan")
    if math.isinf(x):
        return Num(special="inf" if x > 0 else "-inf")
    return Num(Fraction(x))


# ------------------------------------------------------------------------------------------ JSON

def _json_const(c):
    raise DecodeError("non-finite constant %s is not JSON" % c)


def _json_pairs(pairs):
    d = {}
    for k, v in pairs:
        if k in d:
            raise DecodeError("duplicate key %r" % k)
        d[k] = v
    return d


def safe_fraction(s):
    """Fraction of a decimal text, refusing exponents that leave the double range (decoders
    legitimately differ there: overflow to inf vs error)"""
    m = re.search(r"[eE]([-+]?[0-9]+)$", s)
    if (m and abs(int(m.group(1))) > 330) or len(s) > 400:
        raise DecodeError("unsupported value type: number outside the double range")
    f = Fraction(s)
    try:
        if math.isinf(float(f)):
            raise OverflowError()
    except OverflowError:
        raise DecodeError("unsupported value type: number outside the double range")
    return f


def _json_int(s):
    if len(s) > 400:
        raise DecodeError("unsupported value type: number outside the double range")
    return Num(Fraction(int(s)), is_int=True)


def decode_json(text):
    try:
        return json.loads(text, parse_constant=_json_const, object_pairs_hook=_json_pairs,
                          parse_float=lambda s: Num(safe_fraction(s)), parse_int=_json_int)
    except DecodeError:
        raise
    except (ValueError, RecursionError) as e:
        raise DecodeError("json: %s" % e)


# ------------------------------------------------------------------------------------------ TOML

def _toml_norm(v):
    if isinstance(v, bool):
        return v
    if isinstance(v, int):
        return Num(Fraction(v), is_int=True)
    if isinstance(v, float):
        return num_from_float(v)
    if isinstance(v, str):
        return v
    if isinstance(v, list):
        return [_toml_norm(x) for x in v]
    if isinstance(v, dict):
        return {k: _toml_norm(x) for k, x in v.items()}
    raise DecodeError("toml: unsupported value type %s (date/time?)" % type(v).__name__)


def decode_toml(text):
    try:
        return _toml_norm(tomllib.loads(text))
    except tomllib.TOMLDecodeError as e:
        raise DecodeError("toml: %s" % e)
    except RecursionError as e:
        raise DecodeError("toml: recursion")


# ------------------------------------------------------------------------------------------ YAML 1.2 core schema over libyaml events

Y_NULL = re.compile(r"^(null|Null|NULL|~|)$")
Y_BOOL = re.compile(r"^(true|True|TRUE|false|False|FALSE)$")
Y_INT = re.compile(r"^[-+]?[0-9]+$")
Y_OCT = re.compile(r"^0o[0-7]+$")
Y_HEX = re.compile(r"^0x[0-9a-fA-F]+$")
Y_FLOAT = re.compile(r"^[-+]?(\.[0-9]+|[0-9]+(\.[0-9]*)?)([eE][-+]?[0-9]+)?$")
Y_INF = re.compile(r"^[-+]?\.(inf|Inf|INF)$")
Y_NAN = re.compile(r"^\.(nan|NaN|NAN)$")
# plain scalars that YAML 1.1 resolves differently from 1.2 (counted, judged by 1.2)
Y11_DIFF = re.compile(r"^(y|Y|yes|Yes|YES|n|N|no|No|NO|on|On|ON|off|Off|OFF|[-+]?[0-9][0-9_]*(:[0-5]?[0-9])+(\.[0-9_]*)?|"
                      r"[-+]?0[0-7_]+|[-+]?0b[0-1_]+|[-+]?[0-9][0-9_,]*|[0-9]{4}-[0-9]{1,2}-[0-9]{1,2}.*|<<|=)$")


def resolve_plain(s, stats=None):
    if stats is not None and Y11_DIFF.match(s) and not Y_INT.match(s):
        stats["yaml11_vs_12_plain_scalars"] = stats.get("yaml11_vs_12_plain_scalars", 0) + 1
    if Y_NULL.match(s):
        return None
    if Y_BOOL.match(s):
        return s.lower() == "true"
    if Y_INT.match(s):
        if len(s) > 400:
            raise DecodeError("unsupported value type: number outside the double range")
        return Num(Fraction(int(s)), is_int=True)
    if Y_OCT.match(s):
        return Num(Fraction(int(s[2:], 8)), is_int=True)
    if Y_HEX.match(s):
        return Num(Fraction(int(s[2:], 16)), is_int=True)
    if Y_FLOAT.match(s):
        return Num(safe_fraction(s))
    if Y_INF.match(s):
        return Num(special="-inf" if s.startswith("-") else "inf")
    if Y_NAN.match(s):
        return Num(special="nan")
    return s


class _Unhashable:
    pass


def _yaml_docs(text, stats=None):
    try:
        events = list(yaml.parse(text, Loader=yaml.CLoader if HAVE_LIBYAML else yaml.Loader))
    except yaml.YAMLError as e:
        raise DecodeError("yaml: %s" % str(e).replace("\n", " ")[:200])
    except RecursionError:
        raise DecodeError("yaml: recursion")
    pos = [0]
    anchors = {}

    def node():
        ev = events[pos[0]]
        pos[0] += 1
        if isinstance(ev, yaml.AliasEvent):
            if stats is not None:
                stats["yaml_aliases"] = stats.get("yaml_aliases", 0) + 1
            if ev.anchor not in anchors:
                raise DecodeError("yaml: unknown alias")
            return anchors[ev.anchor]
        if isinstance(ev, yaml.ScalarEvent):
            if ev.tag is not None:
                if stats is not None:
                    stats["yaml_explicit_tags"] = stats.get("yaml_explicit_tags", 0) + 1
                raise DecodeError("yaml: explicit tag %s" % ev.tag)
            elif ev.style in (None, "") and ev.implicit[0]:
                v = resolve_plain(ev.value, stats)
            else:
                v = ev.value
            if ev.anchor:
                anchors[ev.anchor] = v
            return v
        if isinstance(ev, (yaml.SequenceStartEvent, yaml.MappingStartEvent)) and ev.tag is not None and not ev.implicit:
            raise DecodeError("yaml: explicit tag %s" % ev.tag)
        if isinstance(ev, yaml.SequenceStartEvent):
            out = []
            if ev.anchor:
                anchors[ev.anchor] = out
            while not isinstance(events[pos[0]], yaml.SequenceEndEvent):
                out.append(node())
            pos[0] += 1
            return out
        if isinstance(ev, yaml.MappingStartEvent):
            out = {}
            if ev.anchor:
                anchors[ev.anchor] = out
            while not isinstance(events[pos[0]], yaml.MappingEndEvent):
                k = node()
                v = node()
                if isinstance(k, (list, dict)):
                    raise DecodeError("yaml: complex mapping key")
                kk = ("#num", k.special or k.frac) if isinstance(k, Num) else k
                if kk in out:
                    raise DecodeError("yaml: duplicate key %r" % (k,))
                out[kk] = v
            pos[0] += 1
            return out
        raise DecodeError("yaml: unexpected event %r" % ev)

    docs = []
    while pos[0] < len(events):
        ev = events[pos[0]]
        if isinstance(ev, (yaml.StreamStartEvent, yaml.StreamEndEvent, yaml.DocumentEndEvent)):
            pos[0] += 1
            continue
        if isinstance(ev, yaml.DocumentStartEvent):
            pos[0] += 1
            docs.append(node())
            continue
        raise DecodeError("yaml: unexpected top-level event %r" % ev)
    return docs


def decode_yaml(text, stats=None):
    docs = _yaml_docs(text, stats)
    if len(docs) == 0:
        return None
    if len(docs) != 1:
        raise DecodeError("yaml: %d documents where one was expected" % len(docs))
    return docs[0]


def decode_yaml_multi(text, stats=None):
    return _yaml_docs(text, stats)


# ------------------------------------------------------------------------------------------ expected data from tagged values

def expected(t):
    """tagged value -> comparison form (None, bool, Num, str, list, dict)"""
    if t is None or isinstance(t, (bool, str)):
        return t
    if isinstance(t, list):
        return [expected(x) for x in t]
    if "i" in t:
        return Num(Fraction(int(t["i"])), is_int=True)
    if "f" in t:
        return num_from_float(struct.unpack(">d", bytes.fromhex(t["f"]))[0])
    if "T" in t:
        return {k: expected(v) for k, v in t["T"]}
    raise ValueError(t)


def diff(exp, got, path="$"):
    """-> None if equal, else (path, kind, expected, got)"""
    if isinstance(exp, Num) or isinstance(got, Num):
        if not (isinstance(exp, Num) and isinstance(got, Num)):
            return path, "type", exp, got
        if exp != got:
            # a float is written as the shortest decimal text that reads back as the same double:
            # equal numeric value means equal as doubles.  Integers must be exact.
            if not exp.special and not got.special and not exp.is_int:
                try:
                    if float(exp.frac) == float(got.frac):
                        return None
                except OverflowError:
                    pass
            return path, "number", exp, got
        return None
    if type(exp) != type(got):
        return path, "type", exp, got
    if isinstance(exp, dict):
        if set(exp) != set(got):
            return path, "keys", sorted(map(repr, set(exp) ^ set(got)))[:6], None
        for k in exp:
            d = diff(exp[k], got[k], path + "." + repr(k)[:30])
            if d:
                return d
        return None
    if isinstance(exp, list):
        if len(exp) != len(got):
            return path, "length", len(exp), len(got)
        for i, (a, b) in enumerate(zip(exp, got)):
            d = diff(a, b, "%s[%d]" % (path, i))
            if d:
                return d
        return None
    if exp != got:
        return path, "string" if isinstance(exp, str) else "scalar", exp, got
    return None


def to_tagged_cmp(j):
    """probe tagged value (from eval/import) -> comparison form, keeping int/float apart via Num.is_int"""
    if j is None or isinstance(j, (bool, str)):
        return j
    if isinstance(j, list):
        return [to_tagged_cmp(x) for x in j]
    if "i" in j:
        return Num(Fraction(int(j["i"])), is_int=True)
    if "f" in j:
        return num_from_float(struct.unpack(">d", bytes.fromhex(j["f"]))[0])
    if "T" in j:
        out = {}
        for k, v in j["T"]:
            if k in out:
                raise DecodeError("duplicate field in ucg tuple: %r" % k)
            out[k] = to_tagged_cmp(v)
        return out
    raise ValueError(j)
