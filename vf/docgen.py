"""Writers of JSON / TOML / YAML documents for C15, independent of ucg and of serde: each returns
the document text for a plain Python data tree (None, bool, int, float, str, list, dict)."""
import json
import math

SAFE_PLAIN = "abcdefghijklmnopqrstuvwxyzABCDEFGHIJKLMNOPQRSTUVWXYZ"


def rand_data(r, depth=3, fmt="json", top=True):
    """plain data tree within the subset on which the format's decoders agree"""
    if top and fmt == "toml":
        return rand_map(r, depth, fmt)
    x = r.random()
    if depth > 0 and x < 0.5:
        if r.random() < 0.5:
            return rand_map(r, depth, fmt)
        items = [rand_data(r, depth - 1, fmt, False) for _ in range(r.randint(0, 4))]
        return items
    return rand_scalar(r, fmt)


def rand_key(r):
    pool = ["a", "b", "key", "name", "a b", "a.b", "a-b", "a_b", "x1", "K", "é", "日本", "with \"quote\"", "tab\there", "1", "true",
            "", " ", "k" * 30, "emoji\U0001F600", "back\\slash", "nl\nkey"]
    return r.choice(pool)


def rand_map(r, depth, fmt):
    d = {}
    for _ in range(r.randint(0, 4)):
        k = rand_key(r)
        if fmt == "toml" and k == "":
            pass
        d[k] = rand_data(r, depth - 1, fmt, False)
    return d


def rand_scalar(r, fmt):
    x = r.random()
    if x < 0.1 and fmt != "toml":
        return None
    if x < 0.22:
        return r.random() < 0.5
    if x < 0.47:
        return r.choice([0, 1, -1, 7, 42, 255, 65536, 2 ** 31, -2 ** 31, 2 ** 53, 2 ** 53 + 1, 2 ** 63 - 1, -2 ** 63, 10 ** 18,
                         r.randint(-10 ** 9, 10 ** 9)])
    if x < 0.65:
        return r.choice([0.5, 1.5, -2.25, 1e-7, 1e21, 3.141592653589793, 123456.789, 1.0, 100.0, 5e-324, 1.7976931348623157e308,
                         -0.1, r.uniform(-1000, 1000)])
    pool = ["", "a", "hello world", "true", "null", "123", "1.5", "é ü", "日本語", "\U0001F600", "line1\nline2", "tab\there",
            "quote\"inside", "single'quote", "back\\slash", " lead", "trail ", "#hash", "a: b", "- dash", "[x]", "{y}", "@at",
            "x" * 200, "\u00a0nbsp", "\u2028ls", "ctrl\x01\x1f", "\r\n", "%", "&amp;", "*star", "!bang", "|pipe", ">gt", "?"]
    return r.choice(pool)


# ------------------------------------------------------------------------------------------ JSON

def write_json(r, data):
    kw = {}
    if r.random() < 0.5:
        kw["indent"] = r.choice([1, 2, 4])
    if r.random() < 0.5:
        kw["ensure_ascii"] = False
    if r.random() < 0.3:
        kw["separators"] = (",", ":")
    return json.dumps(data, **kw)


# ------------------------------------------------------------------------------------------ TOML

def toml_key(r, k):
    import re
    if re.match(r"^[A-Za-z0-9_-]+$", k) and r.random() < 0.7:
        return k
    if "'" not in k and "\n" not in k and all(ord(c) >= 0x20 and ord(c) != 0x7f for c in k) and r.random() < 0.3:
        return "'" + k + "'"
    return toml_basic(k)


def toml_basic(s):
    out = ['"']
    for ch in s:
        o = ord(ch)
        if ch == '"':
            out.append('\\"')
        elif ch == "\\":
            out.append("\\\\")
        elif ch == "\n":
            out.append("\\n")
        elif ch == "\r":
            out.append("\\r")
        elif ch == "\t":
            out.append("\\t")
        elif o < 0x20 or o == 0x7f:
            out.append("\\u%04X" % o)
        else:
            out.append(ch)
    out.append('"')
    return "".join(out)


def toml_value(r, v, inline=True):
    if isinstance(v, bool):
        return "true" if v else "false"
    if isinstance(v, int):
        x = r.random()
        if x < 0.1 and v >= 0:
            return hex(v).replace("0x", "0x")
        if x < 0.2 and abs(v) >= 1000:
            s = str(abs(v))
            parts = []
            while s:
                parts.insert(0, s[-3:])
                s = s[:-3]
            return ("-" if v < 0 else "") + "_".join(parts)
        return str(v)
    if isinstance(v, float):
        s = repr(v)
        if "." not in s and "e" not in s and "inf" not in s and "nan" not in s:
            s += ".0"
        if "e" in s and "." not in s.split("e")[0]:
            m, e = s.split("e")
            s = m + ".0e" + e
        return s
    if isinstance(v, str):
        if "'" not in v and "\n" not in v and all(ord(c) >= 0x20 and ord(c) != 0x7f for c in v) and r.random() < 0.3:
            return "'" + v + "'"
        return toml_basic(v)
    if isinstance(v, list):
        return "[" + ", ".join(toml_value(r, x) for x in v) + ("," if v and r.random() < 0.3 else "") + "]"
    if isinstance(v, dict):
        return "{" + ", ".join("%s = %s" % (toml_key(r, k), toml_value(r, x)) for k, x in v.items()) + "}"
    raise ValueError(v)


def write_toml(r, data, prefix=None):
    """top-level dict -> TOML with tables and inline values"""
    lines = []
    tables = []
    for k, v in data.items():
        if isinstance(v, dict) and r.random() < 0.6:
            tables.append((k, v))
        else:
            lines.append("%s = %s" % (toml_key(r, k), toml_value(r, v)))
            if r.random() < 0.15:
                lines.append("# a comment")
    out = "\n".join(lines) + ("\n" if lines else "")
    for k, v in tables:
        path = (prefix + "." if prefix else "") + toml_key(r, k)
        out += "\n[%s]\n" % path
        out += write_toml_body(r, v, path)
    return out


def write_toml_body(r, d, path):
    lines = []
    subs = []
    for k, v in d.items():
        if isinstance(v, dict) and r.random() < 0.5:
            subs.append((k, v))
        else:
            lines.append("%s = %s" % (toml_key(r, k), toml_value(r, v)))
    out = "\n".join(lines) + ("\n" if lines else "")
    for k, v in subs:
        p = path + "." + toml_key(r, k)
        out += "\n[%s]\n" % p
        out += write_toml_body(r, v, p)
    return out


# ------------------------------------------------------------------------------------------ YAML

def yaml_str(r, s):
    import re
    if s and re.match(r"^[A-Za-z][A-Za-z ]*[A-Za-z]$|^[A-Za-z]$", s) and s.lower() not in (
            "true", "false", "null", "yes", "no", "on", "off", "y", "n", "nan", "inf") and r.random() < 0.4:
        return s
    if "'" not in s and "\n" not in s and "\r" not in s and all(ord(c) >= 0x20 and ord(c) not in (0x7f, 0x85, 0xa0, 0x2028, 0x2029, 0xfeff)
                                                                for c in s) and r.random() < 0.3 and s == s.strip():
        return "'" + s + "'"
    return json.dumps(s)      # a JSON string is a valid YAML double-quoted scalar


def yaml_scalar(r, v):
    if v is None:
        return r.choice(["null", "~"])
    if isinstance(v, bool):
        return "true" if v else "false"
    if isinstance(v, int):
        return str(v)
    if isinstance(v, float):
        s = repr(v)
        if "e" in s:
            m, e = s.split("e")
            if "." not in m:
                m += ".0"
            if not e.startswith("-") and not e.startswith("+"):
                e = "+" + e
            s = m + "e" + e
        return s
    return yaml_str(r, v)


def write_yaml(r, data, indent=0, flow=False):
    sp = "  " * indent
    if flow or (isinstance(data, (list, dict)) and not data):
        return yaml_flow(r, data)
    if isinstance(data, dict):
        out = []
        for k, v in data.items():
            ks = yaml_str(r, k) if not (k and k[0] in "?-:" ) else json.dumps(k)
            if isinstance(v, (dict, list)) and v and r.random() < 0.75:
                out.append("%s%s:\n%s" % (sp, ks, write_yaml(r, v, indent + 1)))
            else:
                out.append("%s%s: %s" % (sp, ks, yaml_flow(r, v)))
        return "\n".join(out)
    if isinstance(data, list):
        out = []
        for v in data:
            if isinstance(v, (dict, list)) and v and r.random() < 0.6:
                inner = write_yaml(r, v, indent + 1)
                out.append("%s-\n%s" % (sp, inner))
            else:
                out.append("%s- %s" % (sp, yaml_flow(r, v)))
        return "\n".join(out)
    return sp + yaml_scalar(r, data)


def yaml_flow(r, v):
    if isinstance(v, dict):
        return "{" + ", ".join("%s: %s" % (json.dumps(k), yaml_flow(r, x)) for k, x in v.items()) + "}"
    if isinstance(v, list):
        return "[" + ", ".join(yaml_flow(r, x) for x in v) + "]"
    if isinstance(v, str):
        return json.dumps(v) if r.random() < 0.8 else yaml_str(r, v)
    return yaml_scalar(r, v)


def write_yaml_doc(r, data):
    body = write_yaml(r, data)
    head = "---\n" if r.random() < 0.3 else ""
    tail = "\n" if r.random() < 0.9 else ""
    if r.random() < 0.15:
        head = "# comment\n" + head
    return head + body + tail


# ------------------------------------------------------------------------------------------ corruption

def corrupt(r, text):
    """truncate / delete / insert / replace a character or a short run"""
    if not text:
        return text + r.choice(["{", "[", "\"", ":", "="])
    k = r.randint(0, 5)
    i = r.randrange(len(text))
    if k == 0:
        return text[:i]
    if k == 1:
        return text[:i] + text[i + 1:]
    if k == 2:
        return text[:i] + r.choice(["{", "}", "[", "]", "\"", "'", ":", ",", "=", "\n", " ", "\\", "#", "-", "0", "x", "\t", "&", "*", "!"]) + text[i:]
    if k == 3:
        j = min(len(text), i + r.randint(1, 6))
        return text[:i] + text[j:]
    if k == 4:
        return text[:i] + r.choice(["}", "]", "\"", ",", ":", "=", "\n", "e", ".", "-"]) + text[i + 1:]
    return text + r.choice(["}", "]", "\"", ",", "x", "\n[", "\n- ", ": :", "= ="])


def corrupt_bytes(r, data):
    """make the file invalid UTF-8: a stray or truncated multi-byte sequence somewhere after the first two bytes
    (a leading FF FE / FE FF would be a UTF-16 byte order mark, which YAML allows)"""
    bad = r.choice([b"\xff", b"\xc3", b"\x80", b"\xe2\x82", b"\xc0\xaf", b"\xed\xa0\x80", b"\xf8\x88\x80\x80\x80", b"\xe9"])
    if len(data) < 3:
        return data + bad
    i = r.randint(2, len(data))
    # not in the middle of an existing multi-byte character, so that only `bad` is wrong
    while i < len(data) and (data[i] & 0xC0) == 0x80:
        i += 1
    if r.random() < 0.5:
        return data[:i] + bad + data[i:]
    # replace the next character
    j = i + 1
    while j < len(data) and (data[j] & 0xC0) == 0x80:
        j += 1
    return data[:i] + bad + data[j:]
