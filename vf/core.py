"""Shared plumbing of the ucg runtime monitors: build, probe/CLI clients with call/return
event logs and watchdogs, parallel runner, three-valued verdicts, known-finding matching,
evidence and replay writers.

Exit statuses of ./check:  0 held on everything explored (KNOWN-FINDING lines allowed)
                           1 VIOLATION (unlisted signature)
                           3 harness broken / inconclusive (never a verdict)
"""
import base64
import collections
import hashlib
import json
import multiprocessing
import os
import random
import select
import shutil
import signal
import subprocess
import sys
import tempfile
import time
import traceback

VERIF = os.path.dirname(os.path.dirname(os.path.abspath(__file__)))
# UCG_REPO: judge another checkout of zaphar/ucg (a scratch worktree carrying a seeded change) instead of
# /repo, with its own harness copy and target directory, so that /repo is never touched
REPO = os.path.abspath(os.environ.get("UCG_REPO", "/repo"))
BUILD = os.path.join(VERIF, ".build")
_ALT = "" if REPO == "/repo" else "-" + hashlib.sha1(REPO.encode()).hexdigest()[:8]
TARGET = os.path.join(BUILD, "probe" + _ALT)
HARNESS = os.path.join(VERIF, "harness") if not _ALT else os.path.join(BUILD, "harness" + _ALT)
PROBE = os.path.join(TARGET, "release", "probe")
UCG = os.path.join(TARGET, "release", "ucg")
SCRATCH = os.path.join(BUILD, "scratch" + _ALT)
KNOWN_FILE = os.path.join(VERIF, "known_findings.jsonl")
NCPU = int(os.environ.get("VERIF_JOBS", str(os.cpu_count() or 4)))


class HarnessBroken(Exception):
    pass


# ------------------------------------------------------------------------------------------
# build

def build(verbose=True):
    """Incremental offline build of probe + ucg CLI from /repo's working tree."""
    os.makedirs(BUILD, exist_ok=True)
    hdir = HARNESS
    if _ALT:
        src = os.path.join(VERIF, "harness")
        os.makedirs(os.path.join(hdir, "src", "bin"), exist_ok=True)
        for rel in ("src/main.rs", "src/astjson.rs", "src/valjson.rs", "src/bin/miri_conv.rs"):
            shutil.copyfile(os.path.join(src, rel), os.path.join(hdir, rel))
        with open(os.path.join(hdir, "Cargo.toml"), "w") as f:
            f.write(open(os.path.join(src, "Cargo.toml")).read().replace('path = "/repo"', 'path = "%s"' % REPO))
    lock_src = os.path.join(REPO, "Cargo.lock")
    lock_dst = os.path.join(hdir, "Cargo.lock")
    try:
        if (not os.path.exists(lock_dst)) or open(lock_src, "rb").read() != open(lock_dst, "rb").read():
            shutil.copyfile(lock_src, lock_dst)
    except OSError as e:
        raise HarnessBroken("cannot copy Cargo.lock: %s" % e)
    env = dict(os.environ)
    env["CARGO_NET_OFFLINE"] = "true"
    env["CARGO_TARGET_DIR"] = TARGET
    env["RUSTFLAGS"] = "--cfg ucg_verif"
    cmd = ["cargo", "build", "--release", "--offline", "-p", "ucg", "--bin", "ucg",
           "-p", "ucg-verif-probe", "--bin", "probe"]
    # a lock file so that concurrently started checks do not race on cargo (cargo has its
    # own lock, this merely keeps the output readable)
    t0 = time.time()
    p = subprocess.run(cmd, cwd=hdir, env=env, stdout=subprocess.PIPE, stderr=subprocess.STDOUT, text=True)
    if p.returncode != 0:
        sys.stderr.write(p.stdout[-6000:])
        raise HarnessBroken("cargo build failed (status %d)" % p.returncode)
    if verbose:
        print("[build] probe+cli up to date in %.1fs" % (time.time() - t0), flush=True)
    if not (os.path.exists(PROBE) and os.path.exists(UCG)):
        raise HarnessBroken("binaries missing after build")


# ------------------------------------------------------------------------------------------
# probe client

class ProbeDied(Exception):
    def __init__(self, sig, stderr_tail=""):
        self.sig = sig
        self.stderr_tail = stderr_tail
        Exception.__init__(self, "probe died: %s" % sig)


class ProbeHang(Exception):
    pass


class Probe:
    """One probe process.  call() records call/return events at the client boundary."""

    def __init__(self, log=None, name="p"):
        self.proc = None
        self.log = log if log is not None else collections.deque(maxlen=200)
        self.name = name
        self.seq = 0
        self.restarts = 0
        self.errfile = None

    def start(self):
        self.stop()
        self.errfile = tempfile.TemporaryFile()
        # 64 MiB main-thread stack is NOT set: the probe runs with the default 8 MiB like the CLI
        self.proc = subprocess.Popen([PROBE], stdin=subprocess.PIPE, stdout=subprocess.PIPE,
                                     stderr=self.errfile, bufsize=0,
                                     env={"PATH": "/usr/bin:/bin", "HOME": "/nonexistent"})
        self.buf = b""
        self.restarts += 1

    def stop(self):
        if self.proc is not None:
            try:
                self.proc.kill()
            except Exception:
                pass
            try:
                self.proc.wait(timeout=5)
            except Exception:
                pass
            for f in (self.proc.stdin, self.proc.stdout):
                try:
                    f.close()
                except Exception:
                    pass
            self.proc = None
        if self.errfile is not None:
            try:
                self.errfile.close()
            except Exception:
                pass
            self.errfile = None

    def _stderr_tail(self):
        try:
            self.errfile.seek(0)
            return self.errfile.read()[-2000:].decode("utf-8", "replace")
        except Exception:
            return ""

    def call(self, req, timeout=10.0):
        if self.proc is None or self.proc.poll() is not None:
            self.start()
        self.seq += 1
        req = dict(req)
        req["id"] = self.seq
        data = (json.dumps(req) + "\n").encode("utf-8")
        h = hashlib.sha1(data).hexdigest()[:12]
        self.log.append({"w": self.name, "seq": self.seq, "t": round(time.monotonic(), 4), "ev": "call",
                         "req": h, "kind": req.get("op")})
        try:
            self.proc.stdin.write(data)
            self.proc.stdin.flush()
        except (BrokenPipeError, OSError):
            return self._dead()
        deadline = time.monotonic() + timeout
        fd = self.proc.stdout.fileno()
        while True:
            nl = self.buf.find(b"\n")
            if nl >= 0:
                line = self.buf[:nl]
                self.buf = self.buf[nl + 1:]
                try:
                    resp = json.loads(line)
                except ValueError:
                    raise HarnessBroken("probe sent non-JSON: %r" % line[:200])
                if resp.get("id") != self.seq:
                    if "harness_error" in resp:
                        raise HarnessBroken("probe: %s" % resp["harness_error"])
                    # stale line from before a restart; skip
                    continue
                st = "panic" if "panic" in resp else ("ok" if resp.get("ok") else "err")
                self.log.append({"w": self.name, "seq": self.seq, "t": round(time.monotonic(), 4),
                                 "ev": "return", "status": st})
                if "harness_error" in resp:
                    raise HarnessBroken("probe: %s" % resp["harness_error"])
                return resp
            remaining = deadline - time.monotonic()
            if remaining <= 0:
                self.log.append({"w": self.name, "seq": self.seq, "t": round(time.monotonic(), 4),
                                 "ev": "hang", "budget_s": timeout})
                self.stop()
                raise ProbeHang()
            r, _, _ = select.select([fd], [], [], min(remaining, 1.0))
            if r:
                chunk = os.read(fd, 1 << 16)
                if not chunk:
                    return self._dead()
                self.buf += chunk
            elif self.proc.poll() is not None:
                return self._dead()

    def _dead(self):
        rc = None
        try:
            rc = self.proc.wait(timeout=5)
        except Exception:
            pass
        tail = self._stderr_tail()
        if rc is not None and rc < 0:
            try:
                sig = signal.Signals(-rc).name
            except ValueError:
                sig = "SIG%d" % -rc
        else:
            sig = "exit%s" % rc
        self.log.append({"w": self.name, "seq": self.seq, "t": round(time.monotonic(), 4), "ev": "crash",
                         "signal": sig})
        self.stop()
        raise ProbeDied(sig, tail)

    def safe_call(self, req, timeout=10.0, confirm_factor=3.0):
        """call() that maps crash/hang into a response dict:
           {"crash": sig, "stderr": ...} / {"hang": budget} / {"inconclusive": reason}.
        A hang in the (loaded) parallel run is confirmed by re-running the request alone with a
        larger budget; only a confirmed hang is reported as one."""
        try:
            return self.call(req, timeout)
        except ProbeDied as e:
            # confirm in a fresh process (a crash must be attributable to this request alone)
            try:
                return self.call(req, timeout * confirm_factor)
            except ProbeDied as e2:
                return {"crash": e2.sig, "stderr": e2.stderr_tail}
            except ProbeHang:
                return {"inconclusive": "crash-then-hang"}
        except ProbeHang:
            try:
                r = self.call(req, timeout * confirm_factor)
                return r
            except ProbeHang:
                return {"hang": timeout * confirm_factor}
            except ProbeDied as e2:
                return {"crash": e2.sig, "stderr": e2.stderr_tail}


def b64d(s):
    return base64.b64decode(s)


def b64e(b):
    return base64.b64encode(b).decode("ascii")


# ------------------------------------------------------------------------------------------
# CLI client

def snapshot_dir(root):
    out = {}
    for dp, dn, fn in os.walk(root):
        for f in fn:
            p = os.path.join(dp, f)
            try:
                b = open(p, "rb").read()
            except OSError:
                continue
            out[os.path.relpath(p, root)] = [len(b), hashlib.sha256(b).hexdigest()]
    return out


def run_cli(argv, cwd, env=None, timeout=20.0, stdin=None, home=None, merge=False):
    """Run the real ucg binary under a scrubbed environment.  Returns an event dict."""
    e = {"PATH": "/usr/bin:/bin"}
    if home is None:
        home = os.path.join(SCRATCH, "home")
        os.makedirs(home, exist_ok=True)
    e["HOME"] = home
    if env:
        e.update(env)
    t0 = time.monotonic()
    ev = {"argv": list(argv), "cwd": cwd, "env": {k: v for k, v in e.items() if k not in ("PATH",)}}
    try:
        # merge=True: stderr goes to the same pipe as stdout (stdout is line buffered, stderr unbuffered, so
        # the order of the lines is the order in which they were written)
        p = subprocess.run([UCG] + list(argv), cwd=cwd, env=e, stdout=subprocess.PIPE,
                           stderr=subprocess.STDOUT if merge else subprocess.PIPE, timeout=timeout, input=stdin)
        rc = p.returncode
        ev["exit"] = rc if rc >= 0 else None
        ev["signal"] = None
        if rc < 0:
            try:
                ev["signal"] = signal.Signals(-rc).name
            except ValueError:
                ev["signal"] = "SIG%d" % -rc
        ev["stdout"] = p.stdout.decode("utf-8", "replace")
        ev["stderr"] = (p.stderr or b"").decode("utf-8", "replace")
        ev["stdout_b"] = p.stdout
    except subprocess.TimeoutExpired as te:
        ev["exit"] = None
        ev["signal"] = None
        ev["hang"] = timeout
        ev["stdout"] = (te.stdout or b"").decode("utf-8", "replace")
        ev["stderr"] = (te.stderr or b"").decode("utf-8", "replace")
        ev["stdout_b"] = te.stdout or b""
    ev["wall_s"] = round(time.monotonic() - t0, 4)
    return ev


def ev_public(ev):
    """event without the raw bytes (JSON-serialisable)"""
    return {k: v for k, v in ev.items() if k != "stdout_b"}


class TempProject:
    """A private scratch directory under /verif/.build/scratch, removed on exit."""

    def __init__(self, prefix="case"):
        os.makedirs(SCRATCH, exist_ok=True)
        self.root = tempfile.mkdtemp(prefix=prefix + "-", dir=SCRATCH)

    def write(self, rel, data):
        p = os.path.join(self.root, rel)
        os.makedirs(os.path.dirname(p), exist_ok=True)
        mode = "wb" if isinstance(data, bytes) else "w"
        if mode == "w":
            with open(p, "w", encoding="utf-8", newline="") as f:
                f.write(data)
        else:
            with open(p, "wb") as f:
                f.write(data)
        return p

    def path(self, rel=""):
        return os.path.join(self.root, rel)

    def cleanup(self):
        shutil.rmtree(self.root, ignore_errors=True)

    def __enter__(self):
        return self

    def __exit__(self, *a):
        self.cleanup()


# ------------------------------------------------------------------------------------------
# results

class Result:
    """Mergeable record of what a (partial) run observed."""

    MAX_SAMPLES = 12
    MAX_VIOL_PER_SIG = 5

    def __init__(self):
        self.evaluations = 0
        self.distinct = set()          # hashes of distinct non-trivial cases
        self.samples = []
        self.counters = collections.Counter()
        self.violations = []           # dicts: signature(list), witness, detail
        self.inconclusive = 0
        self.notes = []

    def case(self, key, nontrivial=True, n=1):
        self.evaluations += n
        if nontrivial:
            self.distinct.add(hashlib.sha1(repr(key).encode("utf-8", "replace")).digest()[:8])

    def sample(self, s):
        if len(self.samples) < self.MAX_SAMPLES:
            self.samples.append(s)

    def count(self, k, n=1):
        self.counters[k] += n

    def violation(self, signature, witness, detail):
        sig = list(signature)
        k = sum(1 for v in self.violations if v["signature"] == sig)
        self.counters["viol:" + "|".join(map(str, sig))] += 1
        if k < self.MAX_VIOL_PER_SIG:
            self.violations.append({"signature": sig, "witness": witness, "detail": detail})

    def merge(self, other):
        self.evaluations += other.evaluations
        self.distinct |= other.distinct
        for s in other.samples:
            self.sample(s)
        self.counters.update(other.counters)
        for v in other.violations:
            k = sum(1 for x in self.violations if x["signature"] == v["signature"])
            if k < self.MAX_VIOL_PER_SIG:
                self.violations.append(v)
        self.inconclusive += other.inconclusive
        self.notes.extend(other.notes[:5])


def _worker_entry(args):
    fn_mod, fn_name, task = args
    try:
        mod = __import__(fn_mod, fromlist=[fn_name])
        fn = getattr(mod, fn_name)
        r = fn(task)
        return ("ok", r)
    except HarnessBroken as e:
        return ("broken", str(e))
    except Exception:
        return ("exc", traceback.format_exc())


def run_parallel(fn, tasks, nworkers=None):
    """Run fn(task) -> Result for every task in worker processes; merge.  fn must be a module
    level function.  A worker exception is a broken harness, never a verdict."""
    nworkers = nworkers or NCPU
    total = Result()
    args = [(fn.__module__, fn.__name__, t) for t in tasks]
    if nworkers <= 1 or len(tasks) <= 1:
        outs = map(_worker_entry, args)
    else:
        pool = multiprocessing.Pool(min(nworkers, len(tasks)), maxtasksperchild=None)
        outs = pool.imap_unordered(_worker_entry, args)
    try:
        for st, r in outs:
            if st == "ok":
                total.merge(r)
            elif st == "broken":
                raise HarnessBroken(r)
            else:
                raise HarnessBroken("worker exception:\n" + r)
    finally:
        if nworkers > 1 and len(tasks) > 1:
            pool.terminate()
            pool.join()
    return total


# ------------------------------------------------------------------------------------------
# known findings, verdicts, evidence

def load_known(prop):
    out = []
    if os.path.exists(KNOWN_FILE):
        for line in open(KNOWN_FILE, encoding="utf-8"):
            line = line.strip()
            if not line or line.startswith("#"):
                continue
            d = json.loads(line)
            if d.get("property") == prop:
                out.append(d)
    return out


def sig_matches(entry_sig, sig):
    """Exact match, element by element; an entry element "*" is NOT a wildcard (signatures are
    exact by design)."""
    return list(entry_sig) == list(sig)


def finish(prop, tier, seed, result, rule, t0, level_text="", assumptions=None, extra=None,
           exhaustive=False, replay_known=None, min_distinct=2):
    """Decide the exit status, write evidence and replay files, print VIOLATION / KNOWN-FINDING
    lines.  `replay_known(entry) -> bool|None` re-runs a listed witness: True = still failing,
    False = passes now, None = cannot tell."""
    known = load_known(prop)
    known_active = [k for k in known if k.get("status") == "known"]
    fixed = [k for k in known if k.get("status") == "fixed"]
    # runs against another checkout (UCG_REPO) never touch the committed evidence
    evdir = os.path.join(VERIF, "evidence") if not _ALT else os.path.join(BUILD, "evidence" + _ALT)
    rpdir = os.path.join(VERIF, "replay") if not _ALT else os.path.join(BUILD, "replay" + _ALT)
    os.makedirs(evdir, exist_ok=True)
    os.makedirs(os.path.join(rpdir, prop), exist_ok=True)

    new_viol = []
    known_seen = collections.Counter()
    for v in result.violations:
        m = None
        for k in known_active:
            if sig_matches(k["signature"], v["signature"]):
                m = k
                break
        if m is not None:
            known_seen[m["id"]] += 1
        else:
            new_viol.append(v)
    # count all (not only the stored ones)
    n_known_total = 0
    n_new_total = 0
    for key, n in result.counters.items():
        if key.startswith("viol:"):
            sig = key[5:].split("|")
            if any([str(x) for x in k["signature"]] == sig for k in known_active):
                n_known_total += n
            else:
                n_new_total += n

    lines = []
    # replay of listed witnesses
    known_status = {}
    if replay_known is not None:
        for k in known_active:
            try:
                st = replay_known(k)
            except HarnessBroken:
                raise
            except Exception:
                st = None
            known_status[k["id"]] = st
            if st is True or (st is None and known_seen.get(k["id"])):
                lines.append("KNOWN-FINDING: property=%s %s (%s)" % (prop, k["id"], k.get("description", "")[:160]))
        for k in fixed:
            try:
                st = replay_known(k)
            except HarnessBroken:
                raise
            except Exception:
                st = None
            known_status[k["id"]] = st
            if st is True:
                # a fixed defect has come back: that is a violation
                v = {"signature": list(k["signature"]) + ["regressed"], "witness": k.get("witness"),
                     "detail": "fixed finding %s fails again" % k["id"]}
                new_viol.append(v)
                n_new_total += 1
    else:
        for k in known_active:
            if known_seen.get(k["id"]):
                lines.append("KNOWN-FINDING: property=%s %s (%s)" % (prop, k["id"], k.get("description", "")[:160]))

    replay_paths = []
    for v in new_viol:
        body = {"property": prop, "seed": seed, "tier": tier, "signature": v["signature"],
                "witness": v["witness"], "detail": v["detail"],
                "repro": "./check %s --replay <this file>" % prop}
        blob = json.dumps(body, sort_keys=True, default=str)
        hh = hashlib.sha1(blob.encode()).hexdigest()[:12]
        path = os.path.join(rpdir, prop, hh + ".json")
        with open(path, "w") as f:
            f.write(json.dumps(body, indent=1, default=str))
        replay_paths.append(path)

    wall = time.time() - t0
    coverage = {
        "evaluations": int(result.evaluations),
        "distinct_nontrivial": len(result.distinct),
        "rule": rule,
        "samples": result.samples[:Result.MAX_SAMPLES] or [],
        "exhaustive": bool(exhaustive),
        "inconclusive": int(result.inconclusive),
        "observed": {k: v for k, v in sorted(result.counters.items()) if not k.startswith("viol:")},
        "violation_signatures": {k[5:]: v for k, v in sorted(result.counters.items()) if k.startswith("viol:")},
        "known_findings_seen": dict(known_seen),
        "known_findings_replayed": {k: ("still-fails" if v is True else "passes" if v is False else "unknown")
                                    for k, v in known_status.items()},
    }
    if extra:
        coverage.update(extra)
    ev = {
        "property_id": prop,
        "tier": tier,
        "seed": int(seed),
        "level": "exploration",
        "coverage": coverage,
        "assumptions": assumptions or [],
        "wall_s": round(wall, 2),
        "violations": len(new_viol) if not n_new_total else int(n_new_total),
    }
    broken = None
    if result.evaluations < 1 or len(result.distinct) < min_distinct:
        broken = "observed too little: %d evaluations, %d distinct non-trivial" % (result.evaluations, len(result.distinct))
    elif result.evaluations and result.inconclusive > max(2, 0.02 * result.evaluations):
        broken = "too many inconclusive cases: %d of %d" % (result.inconclusive, result.evaluations)
    if not coverage["samples"]:
        coverage["samples"] = ["<no sample recorded>"]
    with open(os.path.join(evdir, prop + ".json"), "w") as f:
        json.dump(ev, f, indent=1, default=str)
        f.write("\n")

    for l in lines:
        print(l)
    print("[%s %s seed=%s] evaluations=%d distinct_nontrivial=%d inconclusive=%d known=%d new=%d wall=%.1fs" % (
        prop, tier, seed, result.evaluations, len(result.distinct), result.inconclusive, n_known_total,
        len(new_viol), wall), flush=True)
    if new_viol:
        for v, p in zip(new_viol, replay_paths):
            print("VIOLATION property=%s replay=%s" % (prop, p))
            print("   signature=%s" % json.dumps(v["signature"]))
        return 1
    if broken:
        print("INCONCLUSIVE: %s" % broken)
        return 3
    return 0


def rng_for(seed, *parts):
    h = hashlib.sha256(("%s:" % seed + ":".join(map(str, parts))).encode()).digest()
    return random.Random(int.from_bytes(h[:8], "big"))


def tier_pick(tier, quick, thorough):
    return thorough if tier == "thorough" else quick
