//! ucg-verif-probe: a line-oriented JSON request/response server exposing the documented
//! library entry points of ucglib (built from /repo's working tree) to the monitors in
//! /verif/vf.  One JSON object per input line, one JSON object per output line.
//!
//! Every request runs under catch_unwind; a panic becomes a response
//! {"panic":{"msg":..,"loc":..}}.  Stack overflow / abort kill the process, which the
//! client sees as a request without a reply.
use std::cell::RefCell;
use std::collections::BTreeMap;
use std::io::{BufRead, Write};
use std::panic;
use std::path::PathBuf;
use std::rc::Rc;

use base64::Engine;
use serde_json::{json, Map, Value as J};

use ucglib::ast::printer::AstPrinter;
use ucglib::ast::*;
use ucglib::build::ir::{ConstraintBound, ConstraintVal, ConstraintValArm};
use ucglib::build::opcode::Environment;
use ucglib::build::{FileBuilder, Val};
use ucglib::convert::{ConverterRegistry, ImporterRegistry};
use ucglib::iter::OffsetStrIter;
use ucglib::parse::parse;
use ucglib::tokenizer::tokenize;

mod astjson;
mod valjson;

use astjson::stmts_to_json;
use valjson::{json_to_val, val_to_json};

#[derive(Clone)]
pub struct SharedBuf(Rc<RefCell<Vec<u8>>>);

impl SharedBuf {
    fn new() -> Self {
        SharedBuf(Rc::new(RefCell::new(Vec::new())))
    }
    fn take(&self) -> String {
        let v = std::mem::take(&mut *self.0.borrow_mut());
        String::from_utf8_lossy(&v).to_string()
    }
}

impl Write for SharedBuf {
    fn write(&mut self, buf: &[u8]) -> std::io::Result<usize> {
        self.0.borrow_mut().extend_from_slice(buf);
        Ok(buf.len())
    }
    fn flush(&mut self) -> std::io::Result<()> {
        Ok(())
    }
}

thread_local! {
    static LAST_PANIC: RefCell<Option<(String, String)>> = RefCell::new(None);
}

struct EnvHolder {
    env: RefCell<Environment<SharedBuf, SharedBuf>>,
    out: SharedBuf,
    err: SharedBuf,
    vars: BTreeMap<String, String>,
    uses: usize,
}

fn make_env(vars: &BTreeMap<String, String>) -> EnvHolder {
    let out = SharedBuf::new();
    let err = SharedBuf::new();
    let mut v: BTreeMap<Rc<str>, Rc<str>> = BTreeMap::new();
    for (k, val) in vars.iter() {
        v.insert(k.as_str().into(), val.as_str().into());
    }
    let env = RefCell::new(Environment::new_with_vars(out.clone(), err.clone(), v));
    EnvHolder {
        env,
        out,
        err,
        vars: vars.clone(),
        uses: 0,
    }
}

struct State {
    holder: Option<EnvHolder>,
    converters: ConverterRegistry,
    importers: ImporterRegistry,
}

fn get_vars(req: &J) -> BTreeMap<String, String> {
    let mut m = BTreeMap::new();
    if let Some(J::Object(o)) = req.get("env") {
        for (k, v) in o.iter() {
            m.insert(k.clone(), v.as_str().unwrap_or("").to_string());
        }
    }
    m
}

fn ensure_env<'a>(st: &'a mut State, req: &J) -> &'a mut EnvHolder {
    let vars = get_vars(req);
    let fresh = req.get("fresh").and_then(|b| b.as_bool()).unwrap_or(false);
    let reuse_max = req.get("reuse_max").and_then(|b| b.as_u64()).unwrap_or(200) as usize;
    let need_new = match &st.holder {
        None => true,
        Some(h) => fresh || h.vars != vars || h.uses >= reuse_max,
    };
    if need_new {
        st.holder = None;
        st.holder = Some(make_env(&vars));
    }
    let h = st.holder.as_mut().unwrap();
    h.uses += 1;
    h
}

fn err_json(e: &dyn std::fmt::Display) -> J {
    json!(format!("{}", e))
}

fn handle(st: &mut State, req: &J) -> J {
    let op = req.get("op").and_then(|o| o.as_str()).unwrap_or("");
    match op {
        "ping" => json!({"ok": true}),
        "tokenize" => {
            let text = req["text"].as_str().unwrap_or("");
            match tokenize(OffsetStrIter::new(text), None) {
                Ok(toks) => {
                    let arr: Vec<J> = toks
                        .iter()
                        .map(|t| {
                            json!([
                                format!("{:?}", t.typ),
                                t.fragment.as_ref(),
                                t.pos.line,
                                t.pos.column,
                                t.pos.offset
                            ])
                        })
                        .collect();
                    json!({"ok": true, "tokens": arr})
                }
                Err(e) => {
                    let pos = e.pos.as_ref().map(|p| json!([p.line, p.column, p.offset]));
                    json!({"ok": false, "err": format!("{}", e), "pos": pos})
                }
            }
        }
        "parse" => {
            let text = req["text"].as_str().unwrap_or("");
            let with_pos = req.get("pos").and_then(|b| b.as_bool()).unwrap_or(false);
            let mut cm = BTreeMap::new();
            match parse(OffsetStrIter::new(text), Some(&mut cm)) {
                Ok(stmts) => {
                    let comments: Vec<J> = cm
                        .iter()
                        .map(|(line, grp)| {
                            let frags: Vec<J> = grp
                                .iter()
                                .map(|t| json!([t.fragment.as_ref(), t.pos.line, t.pos.column]))
                                .collect();
                            json!([line, frags])
                        })
                        .collect();
                    json!({"ok": true, "ast": stmts_to_json(&stmts, with_pos), "comments": comments})
                }
                Err(e) => {
                    let pos = e.pos.as_ref().map(|p| json!([p.line, p.column, p.offset]));
                    json!({"ok": false, "err": format!("{}", e), "pos": pos})
                }
            }
        }
        "fmt" => {
            let text = req["text"].as_str().unwrap_or("");
            let indent = req.get("indent").and_then(|b| b.as_u64()).unwrap_or(4) as usize;
            let mut cm = BTreeMap::new();
            match parse(OffsetStrIter::new(text), Some(&mut cm)) {
                Ok(stmts) => {
                    let mut buf: Vec<u8> = Vec::new();
                    let res = {
                        let mut printer = AstPrinter::new(indent, &mut buf).with_comment_map(&cm);
                        printer.render(&stmts)
                    };
                    match res {
                        Ok(()) => match String::from_utf8(buf) {
                            Ok(s) => json!({"ok": true, "text": s}),
                            Err(e) => json!({"ok": false, "stage": "utf8", "err": format!("{}", e)}),
                        },
                        Err(e) => json!({"ok": false, "stage": "render", "err": format!("{}", e)}),
                    }
                }
                Err(e) => json!({"ok": false, "stage": "parse", "err": format!("{}", e)}),
            }
        }
        "eval" => {
            let text = req["text"].as_str().unwrap_or("").to_string();
            let strict = req.get("strict").and_then(|b| b.as_bool()).unwrap_or(true);
            let validate = req.get("validate").and_then(|b| b.as_bool()).unwrap_or(false);
            let wd = req
                .get("cwd")
                .and_then(|b| b.as_str())
                .unwrap_or("/nonexistent-ucg-verif")
                .to_string();
            let h = ensure_env(st, req);
            let import_paths: Vec<PathBuf> = Vec::new();
            let res = {
                let mut b = FileBuilder::new(wd, &import_paths, &h.env);
                b.set_strict(strict);
                if validate {
                    b.enable_validate_mode();
                }
                b.eval_string(&text).map_err(|e| format!("{}", e))
            };
            let so = h.out.take();
            let se = h.err.take();
            let convert_all = req.get("convert_all").and_then(|b| b.as_bool()).unwrap_or(false);
            let omit_val = req.get("omit_val").and_then(|b| b.as_bool()).unwrap_or(false);
            match res {
                Ok(v) => {
                    let mut conv = Vec::new();
                    if convert_all {
                        if let Val::Tuple(fs) = v.as_ref() {
                            for (name, fv) in fs.iter().take(8) {
                                for (cname, c) in st.converters.get_converter_list() {
                                    let fv = fv.clone();
                                    let r = panic::catch_unwind(panic::AssertUnwindSafe(|| {
                                        let mut buf: Vec<u8> = Vec::new();
                                        c.convert(fv, &mut buf).map(|_| buf.len()).map_err(|e| format!("{}", e))
                                    }));
                                    match r {
                                        Ok(Ok(n)) => conv.push(json!({"name": name.as_ref(), "conv": cname, "ok": true, "len": n})),
                                        Ok(Err(e)) => conv.push(json!({"name": name.as_ref(), "conv": cname, "ok": false, "err": e})),
                                        Err(_) => {
                                            let (msg, loc) = LAST_PANIC.with(|p| p.borrow_mut().take()).unwrap_or_default();
                                            conv.push(json!({"name": name.as_ref(), "conv": cname, "panic": {"msg": msg, "loc": loc}}))
                                        }
                                    }
                                }
                            }
                        }
                    }
                    let vj = if omit_val { J::Null } else { val_to_json(&v) };
                    json!({"ok": true, "val": vj, "stdout": so, "stderr": se, "conv": conv})
                }
                Err(e) => json!({"ok": false, "err": e, "stdout": so, "stderr": se}),
            }
        }
        "build" => {
            let path = req["path"].as_str().unwrap_or("").to_string();
            let strict = req.get("strict").and_then(|b| b.as_bool()).unwrap_or(true);
            let validate = req.get("validate").and_then(|b| b.as_bool()).unwrap_or(false);
            let h = ensure_env(st, req);
            let import_paths: Vec<PathBuf> = Vec::new();
            let p = PathBuf::from(&path);
            let wd = p.parent().map(|p| p.to_path_buf()).unwrap_or_else(|| PathBuf::from("/"));
            let (res, asserts) = {
                let mut b = FileBuilder::new(wd, &import_paths, &h.env);
                b.set_strict(strict);
                if validate {
                    b.enable_validate_mode();
                }
                let r = b.build(p).map_err(|e| format!("{}", e));
                let out = b.out.clone();
                let a = json!({"success": b.assert_results(), "summary": b.assert_summary()});
                (r.map(|_| out), a)
            };
            let so = h.out.take();
            let se = h.err.take();
            match res {
                Ok(v) => {
                    let vj = match v {
                        Some(v) => val_to_json(&v),
                        None => J::Null,
                    };
                    json!({"ok": true, "val": vj, "stdout": so, "stderr": se, "asserts": asserts})
                }
                Err(e) => json!({"ok": false, "err": e, "stdout": so, "stderr": se, "asserts": asserts}),
            }
        }
        "convert" => {
            let fmt = req["format"].as_str().unwrap_or("");
            let v = match json_to_val(&req["value"]) {
                Ok(v) => v,
                Err(e) => return json!({"harness_error": e}),
            };
            match st.converters.get_converter(fmt) {
                None => json!({"ok": false, "err": "no such converter", "noconv": true}),
                Some(c) => {
                    let mut buf: Vec<u8> = Vec::new();
                    match c.convert(Rc::new(v), &mut buf) {
                        Ok(()) => {
                            let b64 = base64::engine::general_purpose::STANDARD.encode(&buf);
                            json!({"ok": true, "b64": b64, "ext": c.file_ext()})
                        }
                        Err(e) => {
                            let b64 = base64::engine::general_purpose::STANDARD.encode(&buf);
                            json!({"ok": false, "err": err_json(&e), "partial_b64": b64})
                        }
                    }
                }
            }
        }
        "import" => {
            let fmt = req["format"].as_str().unwrap_or("");
            let bytes = match base64::engine::general_purpose::STANDARD
                .decode(req["b64"].as_str().unwrap_or(""))
            {
                Ok(b) => b,
                Err(e) => return json!({"harness_error": format!("b64: {}", e)}),
            };
            match st.importers.get_importer(fmt) {
                None => json!({"ok": false, "err": "no such importer", "noconv": true}),
                Some(i) => match i.import(&bytes) {
                    Ok(v) => json!({"ok": true, "val": val_to_json(&v)}),
                    Err(e) => json!({"ok": false, "err": err_json(&e)}),
                },
            }
        }
        "converters" => {
            let mut m = Map::new();
            for (name, c) in st.converters.get_converter_list() {
                m.insert(name.clone(), json!({"ext": c.file_ext(), "help": c.help()}));
            }
            let imps: Vec<J> = st
                .importers
                .get_importer_list()
                .iter()
                .map(|(n, _)| json!(n))
                .collect();
            json!({"ok": true, "converters": m, "importers": imps})
        }
        "normalize" => {
            let p = PathBuf::from(req["path"].as_str().unwrap_or(""));
            json!({"ok": true, "path": ucglib::path::normalize(p).to_string_lossy()})
        }
        _ => json!({"harness_error": format!("unknown op {}", op)}),
    }
}

// referenced so that a signature change in these types breaks the build loudly
#[allow(dead_code)]
fn _type_anchor(_: &ConstraintVal, _: &ConstraintValArm, _: &ConstraintBound, _: &Statement, _: &Val) {}

fn main() {
    panic::set_hook(Box::new(|info| {
        let msg = if let Some(s) = info.payload().downcast_ref::<&str>() {
            s.to_string()
        } else if let Some(s) = info.payload().downcast_ref::<String>() {
            s.clone()
        } else {
            "<non-string panic payload>".to_string()
        };
        let loc = info
            .location()
            .map(|l| format!("{}:{}", l.file(), l.line()))
            .unwrap_or_default();
        LAST_PANIC.with(|p| *p.borrow_mut() = Some((msg, loc)));
    }));
    let mut st = State {
        holder: None,
        converters: ConverterRegistry::make_registry(),
        importers: ImporterRegistry::make_registry(),
    };
    let stdin = std::io::stdin();
    let stdout = std::io::stdout();
    let mut line = String::new();
    loop {
        line.clear();
        match stdin.lock().read_line(&mut line) {
            Ok(0) => break,
            Ok(_) => {}
            Err(_) => break,
        }
        let trimmed = line.trim_end_matches(['\n', '\r']);
        if trimmed.is_empty() {
            continue;
        }
        let req: J = match serde_json::from_str(trimmed) {
            Ok(v) => v,
            Err(e) => {
                let mut o = stdout.lock();
                let _ = writeln!(o, "{}", json!({"harness_error": format!("bad request: {}", e)}));
                let _ = o.flush();
                continue;
            }
        };
        let id = req.get("id").cloned().unwrap_or(J::Null);
        let resp = {
            let r = panic::catch_unwind(panic::AssertUnwindSafe(|| handle(&mut st, &req)));
            match r {
                Ok(v) => v,
                Err(_) => {
                    // the shared Environment may be in an inconsistent state: drop it
                    let _ = panic::catch_unwind(panic::AssertUnwindSafe(|| {
                        st.holder = None;
                    }));
                    let (msg, loc) = LAST_PANIC
                        .with(|p| p.borrow_mut().take())
                        .unwrap_or_default();
                    json!({"panic": {"msg": msg, "loc": loc}})
                }
            }
        };
        let mut resp = resp;
        if let J::Object(ref mut m) = resp {
            m.insert("id".to_string(), id);
        }
        let mut o = stdout.lock();
        let _ = writeln!(o, "{}", resp);
        let _ = o.flush();
    }
}
