//! ucg AST -> JSON.  Positions ("p") and the QUOTED/BAREWORD distinction of name tokens
//! ("tt") are emitted only when `with_pos` is set, so that two trees can be compared
//! "ignoring only source positions and whether a field name was quoted".
use serde_json::{json, Map, Value as J};
use ucglib::ast::*;

fn pos(m: &mut Map<String, J>, p: &Position, with_pos: bool) {
    if with_pos {
        m.insert("p".into(), json!([p.line, p.column, p.offset]));
    }
}

fn node(kind: &str) -> Map<String, J> {
    let mut m = Map::new();
    m.insert("k".into(), json!(kind));
    m
}

fn tok(t: &Token, with_pos: bool) -> J {
    if with_pos {
        json!({"frag": t.fragment.as_ref(), "tt": format!("{:?}", t.typ), "p": [t.pos.line, t.pos.column, t.pos.offset]})
    } else {
        json!({"frag": t.fragment.as_ref()})
    }
}

fn fields(fl: &FieldList, wp: bool) -> J {
    J::Array(
        fl.iter()
            .map(|(t, c, e)| {
                let mut m = Map::new();
                m.insert("name".into(), tok(t, wp));
                if let Some(c) = c {
                    m.insert("constraint".into(), expr(c, wp));
                }
                m.insert("val".into(), expr(e, wp));
                J::Object(m)
            })
            .collect(),
    )
}

pub fn value(v: &Value, wp: bool) -> J {
    let mut m;
    match v {
        Value::Empty(p) => {
            m = node("Empty");
            pos(&mut m, p, wp);
        }
        Value::Boolean(b) => {
            m = node("Boolean");
            m.insert("v".into(), json!(b.val));
            pos(&mut m, &b.pos, wp);
        }
        Value::Int(i) => {
            m = node("Int");
            m.insert("v".into(), json!(i.val.to_string()));
            pos(&mut m, &i.pos, wp);
        }
        Value::Float(f) => {
            m = node("Float");
            m.insert("v".into(), json!(format!("{:016x}", f.val.to_bits())));
            m.insert("r".into(), json!(format!("{:?}", f.val)));
            pos(&mut m, &f.pos, wp);
        }
        Value::Str(s) => {
            m = node("Str");
            m.insert("v".into(), json!(s.val.as_ref()));
            pos(&mut m, &s.pos, wp);
        }
        Value::Symbol(s) => {
            m = node("Symbol");
            m.insert("v".into(), json!(s.val.as_ref()));
            pos(&mut m, &s.pos, wp);
        }
        Value::Tuple(t) => {
            m = node("Tuple");
            m.insert("fields".into(), fields(&t.val, wp));
            pos(&mut m, &t.pos, wp);
        }
        Value::List(l) => {
            m = node("List");
            m.insert(
                "elems".into(),
                J::Array(l.elems.iter().map(|e| expr(e, wp)).collect()),
            );
            pos(&mut m, &l.pos, wp);
        }
    }
    J::Object(m)
}

pub fn expr(e: &Expression, wp: bool) -> J {
    let mut m;
    match e {
        Expression::Simple(v) => return value(v, wp),
        Expression::Not(d) => {
            m = node("Not");
            m.insert("e".into(), expr(&d.expr, wp));
            pos(&mut m, &d.pos, wp);
        }
        Expression::Binary(d) => {
            m = node("Binary");
            m.insert("op".into(), json!(format!("{:?}", d.kind)));
            m.insert("l".into(), expr(&d.left, wp));
            m.insert("r".into(), expr(&d.right, wp));
            pos(&mut m, &d.pos, wp);
        }
        Expression::Copy(d) => {
            m = node("Copy");
            m.insert("sel".into(), value(&d.selector, wp));
            m.insert("fields".into(), fields(&d.fields, wp));
            pos(&mut m, &d.pos, wp);
        }
        Expression::Range(d) => {
            m = node("Range");
            m.insert("start".into(), expr(&d.start, wp));
            m.insert(
                "step".into(),
                d.step.as_ref().map(|s| expr(s, wp)).unwrap_or(J::Null),
            );
            m.insert("end".into(), expr(&d.end, wp));
            pos(&mut m, &d.pos, wp);
        }
        Expression::Grouped(inner, p) => {
            m = node("Grouped");
            m.insert("e".into(), expr(inner, wp));
            pos(&mut m, p, wp);
        }
        Expression::Format(d) => {
            m = node("Format");
            m.insert("template".into(), json!(d.template));
            match &d.args {
                FormatArgs::List(l) => {
                    m.insert(
                        "args".into(),
                        J::Array(l.iter().map(|e| expr(e, wp)).collect()),
                    );
                }
                FormatArgs::Single(e) => {
                    m.insert("single".into(), expr(e, wp));
                }
            }
            pos(&mut m, &d.pos, wp);
        }
        Expression::Include(d) => {
            m = node("Include");
            m.insert("path".into(), tok(&d.path, wp));
            m.insert("typ".into(), tok(&d.typ, wp));
            pos(&mut m, &d.pos, wp);
        }
        Expression::Import(d) => {
            m = node("Import");
            m.insert("path".into(), tok(&d.path, wp));
            pos(&mut m, &d.pos, wp);
        }
        Expression::Call(d) => {
            m = node("Call");
            m.insert("f".into(), value(&d.funcref, wp));
            m.insert(
                "args".into(),
                J::Array(d.arglist.iter().map(|e| expr(e, wp)).collect()),
            );
            pos(&mut m, &d.pos, wp);
        }
        Expression::Cast(d) => {
            m = node("Cast");
            m.insert("to".into(), json!(format!("{:?}", d.cast_type)));
            m.insert("e".into(), expr(&d.target, wp));
            pos(&mut m, &d.pos, wp);
        }
        Expression::Func(d) => {
            m = node("Func");
            m.insert(
                "args".into(),
                J::Array(
                    d.argdefs
                        .iter()
                        .map(|(n, c)| {
                            let mut a = Map::new();
                            a.insert("name".into(), json!(n.val.as_ref()));
                            if wp {
                                a.insert("p".into(), json!([n.pos.line, n.pos.column, n.pos.offset]));
                            }
                            if let Some(c) = c {
                                a.insert("constraint".into(), expr(c, wp));
                            }
                            J::Object(a)
                        })
                        .collect(),
                ),
            );
            m.insert("body".into(), expr(&d.fields, wp));
            pos(&mut m, &d.pos, wp);
        }
        Expression::Select(d) => {
            m = node("Select");
            m.insert("val".into(), expr(&d.val, wp));
            m.insert(
                "default".into(),
                d.default.as_ref().map(|s| expr(s, wp)).unwrap_or(J::Null),
            );
            m.insert("fields".into(), fields(&d.tuple, wp));
            pos(&mut m, &d.pos, wp);
        }
        Expression::FuncOp(d) => match d {
            FuncOpDef::Map(x) => {
                m = node("Map");
                m.insert("f".into(), expr(&x.func, wp));
                m.insert("target".into(), expr(&x.target, wp));
                pos(&mut m, &x.pos, wp);
            }
            FuncOpDef::Filter(x) => {
                m = node("Filter");
                m.insert("f".into(), expr(&x.func, wp));
                m.insert("target".into(), expr(&x.target, wp));
                pos(&mut m, &x.pos, wp);
            }
            FuncOpDef::Reduce(x) => {
                m = node("Reduce");
                m.insert("f".into(), expr(&x.func, wp));
                m.insert("acc".into(), expr(&x.acc, wp));
                m.insert("target".into(), expr(&x.target, wp));
                pos(&mut m, &x.pos, wp);
            }
        },
        Expression::Module(d) => {
            m = node("Module");
            m.insert("params".into(), fields(&d.arg_set, wp));
            m.insert(
                "out".into(),
                d.out_expr.as_ref().map(|s| expr(s, wp)).unwrap_or(J::Null),
            );
            m.insert(
                "out_constraint".into(),
                d.out_constraint
                    .as_ref()
                    .map(|s| expr(s, wp))
                    .unwrap_or(J::Null),
            );
            m.insert("stmts".into(), stmts_to_json(&d.statements, wp));
            pos(&mut m, &d.pos, wp);
        }
        Expression::Fail(d) => {
            m = node("Fail");
            m.insert("e".into(), expr(&d.message, wp));
            pos(&mut m, &d.pos, wp);
        }
        Expression::Debug(d) => {
            m = node("Trace");
            m.insert("e".into(), expr(&d.expr, wp));
            pos(&mut m, &d.pos, wp);
        }
        Expression::Convert(d) => {
            m = node("Convert");
            m.insert("conv".into(), tok(&d.converter, wp));
            m.insert("e".into(), expr(&d.target, wp));
            pos(&mut m, &d.pos, wp);
        }
        Expression::Constraint(d) => {
            m = node("Constraint");
            m.insert(
                "arms".into(),
                J::Array(
                    d.arms
                        .iter()
                        .map(|a| match a {
                            ConstraintArm::Range(r) => {
                                let mut rm = node("CRange");
                                rm.insert(
                                    "start".into(),
                                    r.start.as_ref().map(|s| expr(s, wp)).unwrap_or(J::Null),
                                );
                                rm.insert(
                                    "end".into(),
                                    r.end.as_ref().map(|s| expr(s, wp)).unwrap_or(J::Null),
                                );
                                pos(&mut rm, &r.pos, wp);
                                J::Object(rm)
                            }
                            ConstraintArm::Shape(e) => {
                                let mut sm = node("CShape");
                                sm.insert("e".into(), expr(e, wp));
                                J::Object(sm)
                            }
                        })
                        .collect(),
                ),
            );
            pos(&mut m, &d.pos, wp);
        }
    }
    J::Object(m)
}

pub fn stmt(s: &Statement, wp: bool) -> J {
    let mut m;
    match s {
        Statement::Expression(e) => {
            m = node("SExpr");
            m.insert("e".into(), expr(e, wp));
        }
        Statement::Let(d) => {
            m = node("SLet");
            m.insert("name".into(), tok(&d.name, wp));
            if let Some(c) = &d.constraint {
                m.insert("constraint".into(), expr(c, wp));
            }
            m.insert("e".into(), expr(&d.value, wp));
            pos(&mut m, &d.pos, wp);
        }
        Statement::Constraint(d) => {
            m = node("SConstraint");
            m.insert("name".into(), tok(&d.name, wp));
            m.insert("e".into(), expr(&d.value, wp));
            pos(&mut m, &d.pos, wp);
        }
        Statement::Assert(p, e) => {
            m = node("SAssert");
            m.insert("e".into(), expr(e, wp));
            pos(&mut m, p, wp);
        }
        Statement::Output(p, t, e) => {
            m = node("SOut");
            m.insert("conv".into(), tok(t, wp));
            m.insert("e".into(), expr(e, wp));
            pos(&mut m, p, wp);
        }
    }
    if wp {
        let sp = match s {
            Statement::Expression(e) => e.pos(),
            Statement::Let(def) => &def.pos,
            Statement::Constraint(def) => &def.pos,
            Statement::Assert(pos, _) => pos,
            Statement::Output(pos, _, _) => pos,
        };
        m.insert("sp".into(), json!([sp.line, sp.column, sp.offset]));
    }
    J::Object(m)
}

pub fn stmts_to_json(stmts: &[Statement], wp: bool) -> J {
    J::Array(stmts.iter().map(|s| stmt(s, wp)).collect())
}
