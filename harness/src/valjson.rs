//! Tagged JSON encoding of ucglib::build::Val that keeps int/float apart, keeps tuple field
//! order, and carries floats as their IEEE-754 bit pattern.
//!
//!   NULL -> null            bool -> true/false        str -> "..."
//!   int  -> {"i":"<dec>"}   float -> {"f":"<16 hex digits>","r":"<repr>"}
//!   list -> [...]           tuple -> {"T":[[name,val],...]}   env -> {"E":[[k,v],...]}
//!   constraint -> {"K":[{"ri":[lo,hi]}|{"rf":[lo,hi]}|{"x":val},...]}
use std::rc::Rc;

use serde_json::{json, Value as J};
use ucglib::build::ir::{ConstraintBound, ConstraintVal, ConstraintValArm};
use ucglib::build::Val;

pub fn val_to_json(v: &Val) -> J {
    match v {
        Val::Empty => J::Null,
        Val::Boolean(b) => json!(b),
        Val::Int(i) => json!({"i": i.to_string()}),
        Val::Float(f) => json!({"f": format!("{:016x}", f.to_bits()), "r": format!("{:?}", f)}),
        Val::Str(s) => json!(s.as_ref()),
        Val::List(l) => J::Array(l.iter().map(|e| val_to_json(e)).collect()),
        Val::Tuple(fs) => {
            let arr: Vec<J> = fs
                .iter()
                .map(|(k, v)| json!([k.as_ref(), val_to_json(v)]))
                .collect();
            json!({"T": arr})
        }
        Val::Env(fs) => {
            let arr: Vec<J> = fs.iter().map(|(k, v)| json!([k.as_ref(), v.as_ref()])).collect();
            json!({"E": arr})
        }
        Val::Constraint(cv) => {
            let arms: Vec<J> = cv
                .arms
                .iter()
                .map(|a| match a {
                    ConstraintValArm::Range(ConstraintBound::Int(lo, hi)) => {
                        json!({"ri": [lo.map(|x| x.to_string()), hi.map(|x| x.to_string())]})
                    }
                    ConstraintValArm::Range(ConstraintBound::Float(lo, hi)) => {
                        json!({"rf": [lo.map(|x| format!("{:016x}", x.to_bits())), hi.map(|x| format!("{:016x}", x.to_bits()))]})
                    }
                    ConstraintValArm::Exact(v) => json!({"x": val_to_json(v)}),
                })
                .collect();
            json!({"K": arms})
        }
    }
}

fn parse_f(s: &str) -> Result<f64, String> {
    u64::from_str_radix(s, 16)
        .map(f64::from_bits)
        .map_err(|e| format!("bad float bits {}: {}", s, e))
}

pub fn json_to_val(j: &J) -> Result<Val, String> {
    Ok(match j {
        J::Null => Val::Empty,
        J::Bool(b) => Val::Boolean(*b),
        J::String(s) => Val::Str(s.as_str().into()),
        J::Array(a) => {
            let mut out = Vec::new();
            for e in a.iter() {
                out.push(Rc::new(json_to_val(e)?));
            }
            Val::List(out)
        }
        J::Number(_) => return Err("bare numbers are not part of the tagged encoding".into()),
        J::Object(o) => {
            if let Some(i) = o.get("i") {
                let s = i.as_str().ok_or("i must be a string")?;
                Val::Int(s.parse::<i64>().map_err(|e| format!("{}", e))?)
            } else if let Some(f) = o.get("f") {
                Val::Float(parse_f(f.as_str().ok_or("f must be a string")?)?)
            } else if let Some(J::Array(fs)) = o.get("T") {
                let mut out: Vec<(Rc<str>, Rc<Val>)> = Vec::new();
                for f in fs.iter() {
                    let k = f[0].as_str().ok_or("tuple key must be a string")?;
                    out.push((k.into(), Rc::new(json_to_val(&f[1])?)));
                }
                Val::Tuple(out)
            } else if let Some(J::Array(fs)) = o.get("E") {
                let mut out: Vec<(Rc<str>, Rc<str>)> = Vec::new();
                for f in fs.iter() {
                    out.push((
                        f[0].as_str().ok_or("env key")?.into(),
                        f[1].as_str().ok_or("env val")?.into(),
                    ));
                }
                Val::Env(out)
            } else if let Some(J::Array(arms)) = o.get("K") {
                let mut out = Vec::new();
                for a in arms.iter() {
                    if let Some(r) = a.get("ri") {
                        let lo = r[0].as_str().map(|s| s.parse::<i64>().unwrap_or(0));
                        let hi = r[1].as_str().map(|s| s.parse::<i64>().unwrap_or(0));
                        out.push(ConstraintValArm::Range(ConstraintBound::Int(lo, hi)));
                    } else if let Some(r) = a.get("rf") {
                        let lo = match r[0].as_str() {
                            Some(s) => Some(parse_f(s)?),
                            None => None,
                        };
                        let hi = match r[1].as_str() {
                            Some(s) => Some(parse_f(s)?),
                            None => None,
                        };
                        out.push(ConstraintValArm::Range(ConstraintBound::Float(lo, hi)));
                    } else if let Some(x) = a.get("x") {
                        out.push(ConstraintValArm::Exact(Rc::new(json_to_val(x)?)));
                    } else {
                        return Err("bad constraint arm".into());
                    }
                }
                Val::Constraint(ConstraintVal { arms: out })
            } else {
                return Err(format!("unknown tagged object {}", j));
            }
        }
    })
}
