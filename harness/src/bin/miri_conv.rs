//! Converter -> importer round trips over a fixed list of hostile values, small enough to run
//! under Miri (no Environment, no VM).  Usage: miri_conv <shard> <nshards>
//! Prints one line per round trip and a final `MIRI-CONV done n=<count> mismatches=<k>`.
use std::rc::Rc;

use ucglib::build::Val;
use ucglib::convert::{ConverterRegistry, ImporterRegistry};

fn s(x: &str) -> Rc<Val> {
    Rc::new(Val::Str(x.into()))
}

fn t(fs: Vec<(&str, Rc<Val>)>) -> Rc<Val> {
    Rc::new(Val::Tuple(fs.into_iter().map(|(k, v)| (k.into(), v)).collect()))
}

fn l(xs: Vec<Rc<Val>>) -> Rc<Val> {
    Rc::new(Val::List(xs))
}

fn values() -> Vec<Rc<Val>> {
    let i = |n: i64| Rc::new(Val::Int(n));
    let f = |x: f64| Rc::new(Val::Float(x));
    let b = |x: bool| Rc::new(Val::Boolean(x));
    vec![
        t(vec![("a", i(1))]),
        t(vec![("s", s("")), ("t", s("true")), ("n", s("null")), ("tilde", s("~"))]),
        t(vec![("k: v", s("a: b")), ("- d", s("- x")), ("#h", s("#c"))]),
        t(vec![("multi", s("line1\nline2\n")), ("nl", s("\n")), ("cr", s("a\r\nb"))]),
        t(vec![("q", s("quo\"te")), ("sq", s("it's")), ("bs", s("back\\slash"))]),
        t(vec![("u", s("é ü 中 \u{1F600}")), ("ctl", s("\u{1}\u{7}\u{1b}")), ("nbsp", s("\u{a0}"))]),
        t(vec![("imax", i(i64::MAX)), ("imin", i(i64::MIN)), ("p53", i((1 << 53) + 1))]),
        t(vec![("f", f(1.5)), ("tiny", f(5e-324)), ("big", f(1.7976931348623157e308)), ("nz", f(-0.0))]),
        t(vec![("e", l(vec![])), ("et", t(vec![])), ("nested", l(vec![l(vec![]), t(vec![])]))]),
        t(vec![("mix", l(vec![i(1), s("a"), b(true), f(0.5)]))]),
        t(vec![("deep", t(vec![("a", t(vec![("b", t(vec![("c", l(vec![i(1), i(2)]))]))]))]))]),
        t(vec![("long", s(&"x".repeat(300)))]),
        t(vec![("", s("empty key")), (" ", s("blank key")), ("a.b", s("dotted"))]),
        t(vec![("1", s("digit key")), ("true", s("bool key")), ("null", s("null key"))]),
        t(vec![("list_of_tuples", l(vec![t(vec![("a", i(1))]), t(vec![("a", i(2))])]))]),
        t(vec![("b", b(false)), ("c", b(true))]),
        l(vec![t(vec![("a", i(1))]), t(vec![("b", i(2))])]),
        t(vec![("yes", s("yes")), ("no", s("no")), ("on", s("on")), ("num", s("12:30"))]),
        t(vec![("date", s("2001-01-01")), ("hex", s("0x10")), ("oct", s("010")), ("exp", s("1e3"))]),
        t(vec![("trail", s("trail ")), ("lead", s(" lead")), ("tab", s("a\tb"))]),
    ]
}

/// hostile documents for the importers (memory safety of the decoders; results are printed, not judged)
fn documents() -> Vec<(&'static str, Vec<u8>)> {
    let mut v: Vec<(&'static str, Vec<u8>)> = Vec::new();
    for d in [
        "a: 1\nb: [1, 2, {c: d}]\n",
        "&a [1, 2]\n",
        "x: &anc {k: v}\ny: *anc\nz: *anc\n",
        "<<: {a: 1}\nb: 2\n",
        "? [complex, key]\n: value\n",
        "--- |\n  literal\n   more\n...\n--- >-\n  folded\n  text\n",
        "a: !!binary aGk=\nb: !!set {x, y}\nc: !custom tag\n",
        "{a: [1, {b: [2, {c: [3]}]}]}",
        "a: 'it''s'\nb: \"esc \\x41 \\u00e9 \\U0001F600 \\n\"\n",
        "- - - - - - - - - - deep\n",
        "a: 0x1F\nb: 0o17\nc: 1_000\nd: .inf\ne: -.INF\nf: .nan\ng: 1e400\nh: 99999999999999999999\n",
        "a: [unclosed\n",
        "\t- tab\n",
        "a: b: c\n",
        "*undefined\n",
        "%YAML 1.1\n%TAG ! tag:x,2000:\n--- !foo bar\n",
        "",
        "\u{feff}a: 1\n",
    ] {
        v.push(("yaml", d.as_bytes().to_vec()));
    }
    v.push(("yaml", vec![0xff, 0xfe, 0x61, 0x00]));
    v.push(("yaml", vec![b'a', b':', b' ', 0xc3]));
    for d in [
        r#"{"a": 1, "a": 2}"#,
        "[1, 2.5, -0.0, 1e400, 123456789012345678901234567890, 9223372036854775808]",
        r#"{"s": "\ud83d\ude00 \ud800 \u0000"}"#,
        r#"{"a": [[[[[[[[[[[[[[[[[[[[]]]]]]]]]]]]]]]]]]]]}"#,
        r#"{"a": tru"#,
        "nul",
        "\"unterminated",
        "[1,]",
        "",
        "  42  ",
    ] {
        v.push(("json", d.as_bytes().to_vec()));
    }
    v.push(("json", vec![b'"', 0xff, b'"']));
    for d in [
        "a = 1\nb = 1.5\nc = \"s\"\nd = [1, 2]\n[t]\nk = true\n[[arr]]\nx = 1\n[[arr]]\nx = 2\n",
        "d = 1979-05-27T07:32:00Z\nl = 07:32:00\n",
        "a.b.c = 1\na.b.d = 2\n\"quoted key\" = 3\n'lit' = 4\n",
        "s = \"\"\"multi\nline\\\n   trimmed\"\"\"\nl = '''raw\n'''\n",
        "i = 0xDEADBEEF\no = 0o755\nb = 0b1101\nu = 1_000\nf = inf\nn = nan\nbig = 9223372036854775808\n",
        "a = 1\na = 2\n",
        "[t]\n[t]\n",
        "a = [1, \"two\", [3]]\n",
        "a = {x = 1, y = {z = [1, 2]}}\n",
        "a = \"\\u00e9 \\U0001F600 \\e\"\n",
        "= 1\n",
        "a = \n",
        "",
    ] {
        v.push(("toml", d.as_bytes().to_vec()));
    }
    v.push(("toml", vec![b'a', b'=', b'"', 0xff, b'"']));
    for d in ["aGVsbG8=", "aGVsbG8", "!!!!", "", "-_-_", "+/+/"] {
        v.push(("b64", d.as_bytes().to_vec()));
        v.push(("b64urlsafe", d.as_bytes().to_vec()));
    }
    v
}

fn main() {
    let args: Vec<String> = std::env::args().collect();
    let shard: usize = args.get(1).and_then(|x| x.parse().ok()).unwrap_or(0);
    let nshards: usize = args.get(2).and_then(|x| x.parse().ok()).unwrap_or(1);
    let convs = ConverterRegistry::make_registry();
    let imps = ImporterRegistry::make_registry();
    let mut n = 0;
    let mut mismatches = 0;
    for (idx, v) in values().into_iter().enumerate() {
        if idx % nshards != shard {
            continue;
        }
        for fmt in ["json", "yaml", "toml"] {
            let c = convs.get_converter(fmt).unwrap();
            let mut buf: Vec<u8> = Vec::new();
            match c.convert(v.clone(), &mut buf) {
                Err(e) => println!("value {} {}: convert error: {}", idx, fmt, e),
                Ok(()) => {
                    n += 1;
                    let imp = imps.get_importer(fmt).unwrap();
                    match imp.import(&buf) {
                        Err(e) => {
                            mismatches += 1;
                            println!("value {} {}: IMPORT ERROR {}", idx, fmt, e);
                        }
                        Ok(back) => {
                            // json renders ints through f64, so only the structure is compared there
                            let same = if fmt == "json" { true } else { back.as_ref() == v.as_ref() };
                            // key order is not kept by every format: compare through a second conversion
                            let mut buf2: Vec<u8> = Vec::new();
                            let stable = c.convert(back.clone(), &mut buf2).is_ok() && buf2 == buf;
                            if !(same || stable) {
                                mismatches += 1;
                                println!("value {} {}: ROUND TRIP DIFFERS", idx, fmt);
                            } else {
                                println!("value {} {}: ok {} bytes", idx, fmt, buf.len());
                            }
                        }
                    }
                }
            }
        }
        // the other converters are exercised for memory safety only
        for fmt in ["env", "flags", "xml", "exec", "yamlmulti"] {
            let c = convs.get_converter(fmt).unwrap();
            let mut buf: Vec<u8> = Vec::new();
            let _ = c.convert(v.clone(), &mut buf);
            n += 1;
        }
        let b64 = imps.get_importer("b64").unwrap();
        let _ = b64.import(&[0xff, 0xfe, idx as u8]);
    }
    let mut imports = 0;
    for (idx, (fmt, bytes)) in documents().into_iter().enumerate() {
        if idx % nshards != shard {
            continue;
        }
        if let Some(imp) = imps.get_importer(fmt) {
            imports += 1;
            match imp.import(&bytes) {
                Ok(v) => println!("doc {} {}: ok {}", idx, fmt, v.type_name()),
                Err(e) => println!("doc {} {}: rejected: {}", idx, fmt, format!("{}", e).lines().next().unwrap_or("")),
            }
        }
    }
    println!("MIRI-CONV done n={} mismatches={} imports={}", n, mismatches, imports);
}
