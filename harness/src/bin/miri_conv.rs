//! Converter -> importer round trips over a fixed list of hostile values, small enough to run
//! under Miri (no Environment, no VM).  Usage: miri_conv <shard> <nshards>
//! Prints one line per round trip and a final `MIRI-CONV done n=<count> mismatches=<k>`.
use std::rc::Rc;

use ucglib::build::Val;
use ucglib::convert::{ConverterRegistry, ImporterRegistry};

fn s(x: &str) -> Rc<Val> {
    Rc::new(Val::Str(x.into()))
}

fn t(fs: Vec<(&str, Rc<Val>)>) -> Rc<Val> {
    Rc::new(Val::Tuple(fs.into_iter().map(|(k, v)| (k.into(), v)).collect()))
}

fn l(xs: Vec<Rc<Val>>) -> Rc<Val> {
    Rc::new(Val::List(xs))
}

fn values() -> Vec<Rc<Val>> {
    let i = |n: i64| Rc::new(Val::Int(n));
    let f = |x: f64| Rc::new(Val::Float(x));
    let b = |x: bool| Rc::new(Val::Boolean(x));
    vec![
        t(vec![("a", i(1))]),
        t(vec![("s", s("")), ("t", s("true")), ("n", s("null")), ("tilde", s("~"))]),
        t(vec![("k: v", s("a: b")), ("- d", s("- x")), ("#h", s("#c"))]),
        t(vec![("multi", s("line1\nline2\n")), ("nl", s("\n")), ("cr", s("a\r\nb"))]),
        t(vec![("q", s("quo\"te")), ("sq", s("it's")), ("bs", s("back\\slash"))]),
        t(vec![("u", s("é ü 中 \u{1F600}")), ("ctl", s("\u{1}\u{7}\u{1b}")), ("nbsp", s("\u{a0}"))]),
        t(vec![("imax", i(i64::MAX)), ("imin", i(i64::MIN)), ("p53", i((1 << 53) + 1))]),
        t(vec![("f", f(1.5)), ("tiny", f(5e-324)), ("big", f(1.7976931348623157e308)), ("nz", f(-0.0))]),
        t(vec![("e", l(vec![])), ("et", t(vec![])), ("nested", l(vec![l(vec![]), t(vec![])]))]),
        t(vec![("mix", l(vec![i(1), s("a"), b(true), f(0.5)]))]),
        t(vec![("deep", t(vec![("a", t(vec![("b", t(vec![("c", l(vec![i(1), i(2)]))]))]))]))]),
        t(vec![("long", s(&"x".repeat(300)))]),
        t(vec![("", s("empty key")), (" ", s("blank key")), ("a.b", s("dotted"))]),
        t(vec![("1", s("digit key")), ("true", s("bool key")), ("null", s("null key"))]),
        t(vec![("list_of_tuples", l(vec![t(vec![("a", i(1))]), t(vec![("a", i(2))])]))]),
        t(vec![("b", b(false)), ("c", b(true))]),
        l(vec![t(vec![("a", i(1))]), t(vec![("b", i(2))])]),
        t(vec![("yes", s("yes")), ("no", s("no")), ("on", s("on")), ("num", s("12:30"))]),
        t(vec![("date", s("2001-01-01")), ("hex", s("0x10")), ("oct", s("010")), ("exp", s("1e3"))]),
        t(vec![("trail", s("trail ")), ("lead", s(" lead")), ("tab", s("a\tb"))]),
    ]
}

fn main() {
    let args: Vec<String> = std::env::args().collect();
    let shard: usize = args.get(1).and_then(|x| x.parse().ok()).unwrap_or(0);
    let nshards: usize = args.get(2).and_then(|x| x.parse().ok()).unwrap_or(1);
    let convs = ConverterRegistry::make_registry();
    let imps = ImporterRegistry::make_registry();
    let mut n = 0;
    let mut mismatches = 0;
    for (idx, v) in values().into_iter().enumerate() {
        if idx % nshards != shard {
            continue;
        }
        for fmt in ["json", "yaml", "toml"] {
            let c = convs.get_converter(fmt).unwrap();
            let mut buf: Vec<u8> = Vec::new();
            match c.convert(v.clone(), &mut buf) {
                Err(e) => println!("value {} {}: convert error: {}", idx, fmt, e),
                Ok(()) => {
                    n += 1;
                    let imp = imps.get_importer(fmt).unwrap();
                    match imp.import(&buf) {
                        Err(e) => {
                            mismatches += 1;
                            println!("value {} {}: IMPORT ERROR {}", idx, fmt, e);
                        }
                        Ok(back) => {
                            // json renders ints through f64, so only the structure is compared there
                            let same = if fmt == "json" { true } else { back.as_ref() == v.as_ref() };
                            // key order is not kept by every format: compare through a second conversion
                            let mut buf2: Vec<u8> = Vec::new();
                            let stable = c.convert(back.clone(), &mut buf2).is_ok() && buf2 == buf;
                            if !(same || stable) {
                                mismatches += 1;
                                println!("value {} {}: ROUND TRIP DIFFERS", idx, fmt);
                            } else {
                                println!("value {} {}: ok {} bytes", idx, fmt, buf.len());
                            }
                        }
                    }
                }
            }
        }
        // the other converters are exercised for memory safety only
        for fmt in ["env", "flags", "xml", "exec", "yamlmulti"] {
            let c = convs.get_converter(fmt).unwrap();
            let mut buf: Vec<u8> = Vec::new();
            let _ = c.convert(v.clone(), &mut buf);
            n += 1;
        }
        let b64 = imps.get_importer("b64").unwrap();
        let _ = b64.import(&[0xff, 0xfe, idx as u8]);
    }
    println!("MIRI-CONV done n={} mismatches={}", n, mismatches);
}
