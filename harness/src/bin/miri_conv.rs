fn main() {}
