#!/bin/bash
# Runs zaphar/ucg's own test suite (hooks off) plus the repository's ucg-level tests with a
# CLI built from the working tree. Used after every "fix:" commit.
set -e
cd /repo
cargo nextest run --workspace --no-fail-fast --test-threads 8 --offline 2>&1 | tail -3
cd /verif && python3 -c "
import sys; sys.path.insert(0,'/verif')
from vf import core; core.build()"
cd /repo
mkdir -p /verif/.build/scratch/home
for d in std/tests integration_tests; do
  if HOME=/verif/.build/scratch/home /verif/.build/probe/release/ucg test -r $d >/verif/.build/scratch/selftest.log 2>&1; then echo "ucg test -r $d: PASS"; else echo "ucg test -r $d: FAIL"; grep -n "NOT OK\|FAIL\|Err" /verif/.build/scratch/selftest.log | head -20; exit 1; fi
done
git status --short | grep -v '^??' | head
