#!/usr/bin/env python3
"""tools/seedtable.py - print the markdown table of kept seeded changes (for DESIGN.md section 8) and write seeded/INDEX.md"""
import glob, json, os
rows = []
for d in sorted(glob.glob('/verif/seeded/*/')):
    m = json.load(open(d + 'meta.json'))
    name = os.path.basename(d[:-1])
    det = m['detected_by']
    own = m['property']
    first = det.get(own, '')
    missed = 'NOT detected' in first or 'missed' in first.lower()
    others = [k for k, v in det.items() if k != own and not v.lower().startswith('not detected')]
    rows.append((name, own, m['needs_to_manifest'], first, missed, others))
out = ["| seeded change | property | needs | caught by |", "|---|---|---|---|"]
for name, own, needs, first, missed, others in rows:
    caught = own + (" (missed at first; caught after the check was strengthened)" if missed else "")
    if others:
        caught += ", also " + ", ".join(others)
    out.append("| %s | %s | %s | %s |" % (name, own, needs.replace("|", "\\|")[:150], caught))
txt = "\n".join(out) + "\n"
open('/verif/seeded/INDEX.md', 'w').write("# Seeded changes kept under /verif/seeded\n\nEach directory holds patch.diff, the sub-agent's demonstration and meta.json (what it needs to manifest, what I ran, which checks caught it).\n\n" + txt)
print(txt)
print("total", len(rows), "missed-at-first", sum(1 for r in rows if r[4]))
