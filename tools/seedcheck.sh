#!/bin/bash
# tools/seedcheck.sh <seeded-dir-name> <props...>: apply a kept seeded change to a scratch worktree of /repo HEAD (or, when the
# patch no longer applies there because a later fix touched the same lines, of the base commit recorded in its meta.json),
# run the quick checks against it (UCG_REPO), remove the worktree again.  /repo itself is not touched.
set -u
name=$1; shift
wt=/tmp/wt/recheck-$name
git -C /repo worktree remove --force $wt 2>/dev/null
git -C /repo worktree add -q --detach $wt HEAD || exit 2
if ! git -C $wt apply /verif/seeded/$name/patch.diff 2>/dev/null; then
  base=$(python3 -c "import json;print(json.load(open('/verif/seeded/$name/meta.json'))['base_commit'])")
  echo "patch does not apply to HEAD any more; using its base commit $base (violations of defects fixed since then will show too)"
  git -C /repo worktree remove --force $wt
  git -C /repo worktree add -q --detach $wt $base || exit 2
  git -C $wt apply /verif/seeded/$name/patch.diff || { echo "patch does not apply"; git -C /repo worktree remove --force $wt; exit 2; }
fi
/verif/tools/seedtest.sh $wt "$@"
rc=$?
git -C /repo worktree remove --force $wt
exit $rc
