#!/bin/bash
# tools/seedcheck.sh <seeded-dir-name> <props...>: apply a kept seeded change to a scratch worktree of /repo HEAD,
# run the quick checks against it (UCG_REPO), remove the worktree again.  /repo itself is not touched.
set -u
name=$1; shift
wt=/tmp/wt/recheck-$name
git -C /repo worktree remove --force $wt 2>/dev/null
git -C /repo worktree add -q --detach $wt HEAD || exit 2
git -C $wt apply /verif/seeded/$name/patch.diff || { echo "patch does not apply"; git -C /repo worktree remove --force $wt; exit 2; }
/verif/tools/seedtest.sh $wt "$@"
rc=$?
git -C /repo worktree remove --force $wt
exit $rc
