#!/usr/bin/env python3
"""tools/numbers.py <log> [<log> ...] - table of evaluations and wall time per property and tier from runall-style logs
(lines `Cxx rc=.. Ns .. | [Cxx <tier> seed=S] evaluations=N distinct_nontrivial=M ... wall=Ws`); the last line per
(property, tier) wins."""
import re, sys
rows = {}
for path in sys.argv[1:]:
    for line in open(path, errors="replace"):
        m = re.search(r"\[(C\d\d) (quick|thorough) seed=(\d+)\] evaluations=(\d+) distinct_nontrivial=(\d+) inconclusive=(\d+) known=(\d+) new=(\d+) wall=([0-9.]+)s", line)
        if m:
            p, tier, seed, ev, dn, inc, kn, new, wall = m.groups()
            rows[(p, tier)] = (int(seed), int(ev), int(dn), int(inc), int(kn), int(new), float(wall))
print("| property | quick: executions judged | distinct non-trivial | wall | thorough: executions judged | distinct non-trivial | wall |")
print("|---|---|---|---|---|---|---|")
tq = tt = eq = et = 0
for i in range(1, 21):
    p = "C%02d" % i
    q, t = rows.get((p, "quick")), rows.get((p, "thorough"))
    f = lambda r: ("%s | %s | %.0f s" % (format(r[1], ","), format(r[2], ","), r[6])) if r else "– | – | –"
    print("| %s | %s | %s |" % (p, f(q), f(t)))
    if q: tq += q[6]; eq += q[1]
    if t: tt += t[6]; et += t[1]
print("| all | %s |  | %.1f min | %s |  | %.0f min |" % (format(eq, ","), tq / 60, format(et, ","), tt / 60))
