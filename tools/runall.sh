#!/bin/bash
# tools/runall.sh [tier] [seed]  - run every check once, print one line per property
tier=${1:-quick}; seed=${2:-1}
cd /verif
for p in C01 C02 C03 C04 C05 C06 C07 C08 C09 C10 C11 C12 C13 C14 C15 C16 C17 C18 C19 C20; do
  s=$(date +%s)
  out=$(VERIF_SEED=$seed ./check $p --tier $tier 2>&1); rc=$?
  e=$(date +%s)
  echo "$p rc=$rc $((e-s))s $(echo "$out" | grep -c '^VIOLATION') violations; $(echo "$out" | grep -c '^KNOWN-FINDING') known | $(echo "$out" | grep '^\[C' | tail -1)"
  if [ $rc -ne 0 ]; then echo "$out" | grep -v "^KNOWN" | tail -5; fi
done
