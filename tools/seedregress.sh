#!/bin/bash
# tools/seedregress.sh [parallel]: run every kept seeded change against the quick check of its own property (tools/seedcheck.sh)
# and print one line per change: CAUGHT / MISSED.  Results also go to /verif/.build/seedregress.log
par=${1:-3}
cd /verif
: > .build/seedregress.log
ls seeded | grep -v INDEX.md | xargs -P $par -I{} bash -c '
  n={}; p=$(python3 -c "import json;print(json.load(open(\"/verif/seeded/$n/meta.json\"))[\"property\"])");
  alt=$(python3 -c "import json;d=json.load(open(\"/verif/seeded/$n/meta.json\"))[\"detected_by\"];p=json.load(open(\"/verif/seeded/$n/meta.json\"))[\"property\"];print(p if not d.get(p,\"\").startswith(\"NOT detected by\") else [k for k in d if k!=p][0])");
  out=$(tools/seedcheck.sh $n $alt 2>&1); if echo "$out" | grep -q "rc=1"; then r=CAUGHT; else r=MISSED; fi;
  echo "$r $n ($alt) $(echo "$out" | grep "^== " | head -1 | cut -c1-120)" | tee -a /verif/.build/seedregress.log'
sort .build/seedregress.log | awk "{print \$1}" | uniq -c
