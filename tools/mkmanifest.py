#!/usr/bin/env python3
"""Regenerates /verif/MANIFEST.json from the table below (run after claiming a new property)."""
import json
import os
import subprocess

HERE = os.path.dirname(os.path.dirname(os.path.abspath(__file__)))

CLAIMED = {
    "C01": dict(
        engine="probe",
        technique="runtime monitor: differential against a definitional reference interpreter over typed random programs (success/failure and every binding)",
        text="Thousands of typed random programs per run (ill-typed and failing sub-terms included, also inside short-circuited operands) are evaluated by the real translate+VM pipeline and by an independent tree-walking interpreter written from the language reference; any difference in outcome or in a bound value is a violation, shrunk and classified. Behaviour the reference leaves open yields no verdict and is counted. Holds on the programs generated; the construct histogram in the evidence is the statement of reach.",
        note="Trusted: vf/refint.py as my reading of docsite/site/content/reference/*.md (rule table in DESIGN.md appendix A); the probe's value serializer. Crashes are left to C04.",
        design="DESIGN.md section 4, C01"),
    "C04": dict(
        engine="probe",
        technique="runtime monitor: crash/hang attribution (catch_unwind panic responses, signals, confirmed watchdog) over hostile inputs through every stage + the real CLI's exit status",
        text="Token soup, arbitrary UTF-8, token mutations of every shipped .ucg/fuzz-corpus file and of generated programs, a catalogue of ~1,700 edge-operand programs and deep-but-allowed nesting are driven through tokenize, parse, fmt, eval, build (type checker) and all converters in-process and through `ucg build|fmt|test`; the oracle is the absence of panic/abort/hang events and exit status in {0,1} with a message. 'Terminates' is monitored as bounded progress (10 s per stage, confirmed alone at 30 s).",
        note="Trusted: the watchdog bound as a stand-in for termination; the probe is built with overflow-checks/debug-assertions on (semantics of `cargo build`). Excluded inputs (nesting > 64, module self-recursion, ranges > 10^6) are counted, not judged.",
        design="DESIGN.md section 4, C04"),
    "C05": dict(
        engine="probe",
        technique="runtime monitor: metamorphic oracles on the formatter (parse(fmt(t)) == parse(t), comment sequence preserved per an independent tokenizer, fmt idempotent) + CLI/library differential",
        text="Generator programs under random layouts with comments in every position, a catalogue of literal and comment forms, and every .ucg file in the repository are formatted by the real AstPrinter (the exact code path of `ucg fmt`); the formatted text must parse to the same tree (positions and field-name quoting ignored), carry the same comment texts in the same order as read by my own tokenizer, and be a fixed point where the property demands it; `ucg fmt` and `ucg fmt -w` must produce the same bytes.",
        note="Trusted: the probe's AST serializer (what counts as 'the same tree'), vf/reftok.py for comment extraction.",
        design="DESIGN.md section 4, C05"),
    "C06": dict(
        engine="probe",
        technique="runtime monitor: reference-model oracle (shape-conformance model written from the statement) on build success/failure of generated (constraint, value) files; metamorphic agreement of inline / named / let-bound spellings",
        text="Constraints from the whole grammar of the quantifier are paired with literal and computed values incl. every range boundary and float neighbour; the file `let v :: C = V;` is built by checker + VM (and by the CLI for a sample) and must build exactly when the model says the value conforms; the same constraint written inline, behind `constraint` and behind a let-bound exemplar must give the same verdict.",
        note="Trusted: conform() in vf/props/c06.py as the literal reading of the statement. NULL gives no verdict; recursive constraints are outside the quantifier.",
        design="DESIGN.md section 4, C06"),
    "C07": dict(
        engine="probe",
        technique="runtime monitor: differential between two paths through the real code (eval_string without the checker vs build of the same text as a file with the checker)",
        text="Well-typed generated programs over the first-order fragment plus a catalogue of documented constructs are evaluated without the checker; every one that evaluates is written to a file and built with the checker in front of the same VM: a rejection, or a different bound value, is a violation keyed on the checker's message. Only programs that evaluate are judged, so the check can never demand more than the statement.",
        note="Trusted: nothing beyond the probe; both sides are real code. Statically ill-typed dead code is not generated in this mode (a static checker may reject it).",
        design="DESIGN.md section 4, C07"),
    "C09": dict(
        engine="cli",
        technique="runtime monitor: history checker over real `ucg build` runs from 3 working directories (exit status, decoded artifact vs by-construction value, TRACE-line evaluation counts per file); cycle runs judged by exit/diagnostic/signal",
        text="Generated project trees (2..8 files, nested directories, random DAGs, 22 syntactic positions for the import expression, four equivalent path spellings, repeated imports compared with ==, a relative include) are built by the real CLI from the project root, a sibling directory and /, with relative and absolute entry paths; every configuration must succeed with the value the project has by construction and exactly one TRACE line per reachable file. Graphs with a back edge must exit 1 with a cycle diagnostic, without a signal, inside the watchdog.",
        note="Trusted: one TRACE line per evaluation (observed on stderr, no instrumentation); the project model that computes the expected value.",
        design="DESIGN.md section 4, C09"),
    "C16": dict(
        engine="cli",
        technique="runtime monitor: differential over CLI histories (each file alone in a fresh process and fresh project copy vs every permutation of the batch, each run twice), per-file sections of the merged stdout/stderr stream + artifact bytes",
        text="For generated projects mixing entries with out statements, shared libraries, files both built and imported, four kinds of failing files, duplicates on the command line and -r, the outcome of each file alone is the reference; every permutation of up to 4 files (and random permutations beyond) is built in one invocation, twice, and each file's failure status, artifact bytes and the exit status must match the reference.",
        note="Trusted: the sectioning of the merged output stream by `Building <file>` lines (stdout is line buffered, stderr unbuffered, same pipe).",
        design="DESIGN.md section 4, C16"),
    "C10": dict(
        engine="probe",
        technique="runtime monitor: prefix-consistency differential (every program vs each of its statement prefixes), reference-interpreter oracle on name-collision templates, reserved-word list read from the reference",
        text="Each generated program is run cut at every statement boundary: a binding made by a prefix must keep its value in the full run and a failing prefix must fail the program; 23 scoping templates (shadowing, leaks of parameters/item/self/module bindings, references to later bindings, module isolation) padded with unrelated statements are judged by the reference interpreter; every published reserved word is tried as a let, constraint, module-local and parameter binding.",
        note="Trusted: vf/refint.py scoping rules; the reserved list in reference/_index.md as the specification.",
        design="DESIGN.md section 4, C10"),
    "C03": dict(
        engine="probe",
        technique="runtime monitor: round-trip oracle through independent decoders (CPython json, tomllib, libyaml events + own YAML 1.2 resolver) over hostile value trees; representability table for must-fail values",
        text="Tens of thousands of value trees built from format-significant strings, numeric extremes, non-finite floats, quoting-hostile keys and nested empties are converted by the real converters (directly, through convert expressions and through `out` with the real CLI) and read back by decoders that share no code with serde; nesting, order, key sets, strings and exact numeric values must agree, and values the format cannot carry must be errors.",
        note="Trusted: the independent decoders; my YAML 1.2 core-schema resolver (scalars on which 1.1 and 1.2 differ are counted). TOML arrays mixing types or nesting tables: error or exact round trip both accepted.",
        design="DESIGN.md section 4, C03"),
    "C08": dict(
        engine="probe",
        technique="runtime monitor: the converters' output is executed by real shells (dash and bash) and the words/variables they see are compared with the input; exhaustive small string space, canary side-effect detection, all field-kind sequences",
        text="Every string over a 9-symbol shell-hostile alphabet up to length 4 (thorough: 6), injection canaries and random Unicode are placed in all six positions of the env, flags and exec converters; dash and bash source / eval the real output in a directory full of bait files and report argv and variables NUL-separated; any altered, split, merged or missing word, any created file, is a violation. All sequences of scalar/NULL/list/tuple fields up to 4 (thorough: 5) check that a skipped field never swallows the next.",
        note="Trusted: dash and bash as the POSIX shells; `exec` shadowed by a bash function to observe the exec script. Variable names restricted to shell identifiers.",
        design="DESIGN.md section 4, C08"),
    "C12": dict(
        engine="probe",
        technique="runtime monitor: round-trip oracle through expat (xml.etree, namespace-aware) against the tree computed from the document tuple by the documented DSL rules; must-fail table for malformed documents",
        text="Thousands of generated document tuples (elements, bare and {text=} text nodes, attributes and text full of markup-significant and whitespace characters, default/prefixed namespaces incl. shadowing, NULL attrs/children, declaration fields in any order) are written by the real xml converter and parsed by expat; resolved names, attributes, in-force namespace bindings, child order and text must match; every malformed-document kind must be an error; a sample goes through std/xml.ucg and `out xml` with the CLI. All differences of a document are reported, so a listed dependency defect cannot hide a new one.",
        note="Trusted: expat; my reading of the DSL in reference/converters.md. Whitespace-only text segments are ignored on both sides because the writer indents; XML-illegal characters are not generated.",
        design="DESIGN.md section 4, C12"),
    "C13": dict(
        engine="cli",
        technique="runtime monitor: offline history checker over the merged output of real `ucg test` runs (unique assertion ids: exactly-once per file section, verdict vs by-construction truth, exit status) over all permutations of the file list",
        text="Generated test files with true, false, malformed and computed assertions and with build errors at random places are run through the real `ucg test`, alone, in every permutation of up to 4 files in one invocation, and with -r; because every assertion description is a unique id the log is an unambiguous history: each id exactly once, in its own file's section, with the right outcome; PASS exactly when the file builds and every assertion holds; non-zero exit exactly when some file fails.",
        note="Trusted: the generator's truth table; sectioning of the merged stream by `Validating <file>` lines.",
        design="DESIGN.md section 4, C13"),
    "C14": dict(
        engine="cli",
        technique="runtime monitor: directory-snapshot history checker around the real `ucg build` (sha256 before/after) + byte differential against the `convert` expression; fault sequences good/bad/good",
        text="For every converter listed by `ucg converters`, files with 0, 1 and 2 out statements and values that can and cannot be converted are built by the real CLI in scratch directories, also as the fault sequence good build -> failing build -> good build; the snapshot diff must be exactly {file.ext} with the bytes the convert expression yields, and a failing build must exit 1 and leave every byte of the directory as it was.",
        note="Trusted: the snapshot code; the probe's eval of `convert <fmt> v` as the byte oracle.",
        design="DESIGN.md section 4, C14"),
    "C15": dict(
        engine="probe",
        technique="runtime monitor: differential against independent decoders on Python-generated documents and their corruptions; strict decoder decides accept/reject, exclusions counted",
        text="JSON, TOML and YAML documents written by writers of my own (never by serde) and two corrupted variants of each are included by the real code; the tagged value (ints and floats kept apart) must equal what CPython json / tomllib / libyaml read from the same bytes, and whatever the strict decoder rejects must be a build error. Text, empty and binary files are included as str / b64 / b64urlsafe and compared with the file text and Python's base64.",
        note="Trusted: the independent decoders. Constructs on which decoders legitimately differ are excluded and counted in the evidence (duplicate keys, ints outside i64, YAML anchors/tags/merge/non-string keys/1.1-only and leading-zero scalars, surrogates, -0, out-of-range floats, TOML dates).",
        design="DESIGN.md section 4, C15"),
    "C18": dict(
        engine="cli",
        technique="runtime monitor: the real CLI run under generated complete environments; artifact decoded and compared with what was passed; planted 128-bit secrets searched in all output of failing runs; shadowing catalogue",
        text="Random environments (hostile names and values, 1..3 planted random secrets) are the complete environment of real `ucg build` / `ucg --no-strict build` runs: every set variable must read back exactly through out json, an unset one must fail naming it in strict mode and be NULL otherwise, no secret value may appear in any output, `let env` must be rejected and fields/selectors named env must keep meaning the field.",
        note="Trusted: subprocess env passing; a secret counts as disclosed when its 32 hex digits occur in stdout or stderr.",
        design="DESIGN.md section 4, C18"),
    "C19": dict(
        engine="probe",
        technique="runtime monitor: reference-model oracle (one short Python definition per helper, written from the stdlib docs) on results of generated files that import std/*.ucg and are built by checker + VM; documented laws checked as such",
        text="About forty helper entry points of std/lists, tuples, strings, functional and schema are called with random lists, tuples with NULLs, ASCII/Unicode strings, 1..3-character separators and every in-range/boundary index pair in generated files built through the type checker and the VM; results must equal the Python reference, and reverse-involution, zip truncation, inclusive slices and split_on/str_join restoration must hold.",
        note="Trusted: my reference definitions (vf/props/c19.py); out-of-range arguments are judged only where the docs define the result.",
        design="DESIGN.md section 4, C19"),
    "C20": dict(
        engine="cli",
        technique="runtime monitor: offline checkers over recorded JSON-RPC histories of random sessions with the real `ucg lsp` (request/response matching, range containment, session-vs-fresh-server differential, parser and `ucg build` differentials)",
        text="Random sessions of open/change/close notifications and hover, definition, completion, semantic-token and workspace-symbol requests at hostile positions over generated, mutated and arbitrary UTF-8 texts are played against the real server over stdio; the recorded history is checked for a response to every request, liveness and exit status 0, every reported range inside its document, final diagnostics equal to those of a fresh server opened on the final text, a single syntax diagnostic exactly where the compiler's parser fails, and no diagnostics on texts that `ucg build` accepts.",
        note="Trusted: the client's framing and history; the lax UTF-8/UTF-16 character bound. Unknown methods and malformed params are not sent.",
        design="DESIGN.md section 4, C20"),
    "C17": dict(
        engine="probe",
        technique="runtime monitor: span oracle from my layout engine on single-fault programs (primary position inside the faulty statement, VIA inside the caller) + metamorphic line-shift check; eval, build and CLI",
        text="Valid multi-line programs get exactly one fault (11 syntax and 12 evaluation kinds) at every statement position and 7 nesting hosts; since the layout engine placed every token, the exact span of the faulty and of the calling statement is known, and the first line/column of the diagnostic (VM, checker and CLI paths) must fall inside it; inserting k lines before must move it by exactly k lines, inserting after must not move it.",
        note="Trusted: the layout engine's bookkeeping (cross-checked against ucg's own token positions in C11); 'primary position' = first line/column in the diagnostic.",
        design="DESIGN.md section 4, C17"),
    "C11": dict(
        engine="probe",
        technique="runtime monitor: reference-model oracle (maximal-munch reference tokenizer) on token type/fragment/line/column/offset; exhaustive token pairs (+ triples in thorough); metamorphic layout invariance of tokens and parse trees",
        text="Every adjacent/separated pair (thorough: every triple) of a vocabulary covering all keywords, operators, punctuation and literal shapes is tokenized by the real tokenizer and by an independent maximal-munch tokenizer written from the reference; random token sequences and generated programs are laid out with random whitespace, LF/CRLF and comments and must keep their token sequence, positions and parse tree; string literals over arbitrary Unicode with every escape form must evaluate to the decoded source text.",
        note="Trusted: vf/reftok.py as my reading of the grammar (symbols: ASCII letter then letters, digits, _ or -); columns are accepted in bytes or code points because the reference does not define the unit.",
        design="DESIGN.md section 4, C11"),
    "C02": dict(
        engine="probe",
        technique="runtime monitor: reference-model oracle (precedence climbing over the published table) on parse trees; exhaustive 111,150-chain space + random chains",
        text="Every run enumerates the complete space of 1..4-operator chains named by the quantifier and compares the real parser's tree with the tree the published table dictates; random longer chains with parentheses and compound operands add operand-independence. Holds on what was observed; says nothing about chains longer than 10 or operand forms the generator does not emit.",
        note="Trusted: the table in docsite/.../expressions.md as the specification (read at run time), my 15-line precedence climber, the probe's AST-to-JSON serializer.",
        design="DESIGN.md section 4, C02"),
}

PENDING_REASON = "monitor for this property is designed in DESIGN.md but not built/validated yet in this round; not claimed until its check is silent on the unchanged tree"


def main():
    props = [json.loads(l) for l in open(os.path.join(HERE, "properties.jsonl"))]
    try:
        commits = subprocess.run(["git", "-C", "/repo", "log", "--format=%H %s"], capture_output=True, text=True).stdout.splitlines()
    except Exception:
        commits = []
    hook_commits = [c.split()[0] for c in commits if " verif-hook:" in c or c.split(" ", 1)[1].startswith("verif-hook")]
    checks = []
    na = []
    for p in props:
        pid = p["id"]
        if pid in CLAIMED:
            c = CLAIMED[pid]
            checks.append({
                "property_id": pid,
                "quick_cmd": "./check %s --tier quick" % pid,
                "thorough_cmd": "./check %s --tier thorough" % pid,
                "evidence_file": "evidence/%s.json" % pid,
                "replay_cmd_template": "./check %s --replay {path}" % pid,
                "engine": c["engine"],
                "level_claimed": {"category": "exploration", "text": c["text"], "design_ref": c["design"]},
                "level_note": c["note"],
                "technique": c["technique"],
            })
        else:
            na.append({"property_id": pid, "reason": PENDING_REASON})
    m = {
        "version": 1,
        "setup_cmd": "./check --setup",
        "hooks": {
            "guard": "ucg_verif",
            "enable": "RUSTFLAGS=\"--cfg ucg_verif\" (set by vf/core.py build(); cargo build --release --offline from /verif/harness, target dir /verif/.build/probe)",
            "baseline_off_cmd": "cd /repo && (cargo nextest run --workspace --no-fail-fast --test-threads 8 --offline || cargo test --workspace --no-fail-fast --offline)",
            "source_commits": hook_commits,
            "add_only": True,
        },
        "engines": [
            {"name": "probe", "path": "harness/", "kind_free_text": "Rust JSON-lines server linking ucglib from /repo's working tree (tokenize/parse/fmt/eval/build/convert/import under catch_unwind); driven by the Python monitors in vf/",
             "serves_properties": sorted(k for k, v in CLAIMED.items() if v["engine"] == "probe")},
            {"name": "cli", "path": "vf/core.py", "kind_free_text": "the real ucg binary built from /repo, run under env -i style scrubbed environments with directory snapshots and watchdogs",
             "serves_properties": sorted(k for k, v in CLAIMED.items() if v["engine"] == "cli")},
        ],
        "checks": checks,
        "not_applicable": na,
        "notes": "Technique family: runtime monitoring. All verdicts are three-valued; exit 3 = harness broken/inconclusive. Known findings live in known_findings.jsonl (exact signatures).",
    }
    with open(os.path.join(HERE, "MANIFEST.json"), "w") as f:
        json.dump(m, f, indent=1)
        f.write("\n")
    print("claimed:", sorted(CLAIMED), "pending:", len(na))


if __name__ == "__main__":
    main()
