#!/usr/bin/env python3
"""tools/keepseed.py <name> <worktree> <property> '<needs>' '<detected-by json>'  - store a confirmed seeded change under /verif/seeded/<name>/"""
import json, os, shutil, subprocess, sys
name, wt, prop, needs, detected = sys.argv[1:6]
dst = os.path.join("/verif/seeded", name)
if os.path.exists(dst):
    shutil.rmtree(dst)
os.makedirs(dst)
src = os.path.join(wt, "SEEDED")
for f in os.listdir(src):
    p = os.path.join(src, f)
    if os.path.isdir(p):
        shutil.copytree(p, os.path.join(dst, f))
    elif os.path.getsize(p) < 200000:
        shutil.copyfile(p, os.path.join(dst, f))
# the patch as it applies to /repo's HEAD
# bytes, not text: some files of the repository have CRLF line ends, which text mode would drop
diff = subprocess.run(["git", "-C", wt, "diff"], capture_output=True).stdout
open(os.path.join(dst, "patch.diff"), "wb").write(diff)
base = subprocess.run(["git", "-C", wt, "rev-parse", "HEAD"], capture_output=True, text=True).stdout.strip()
meta = {"property": prop, "base_commit": base, "needs_to_manifest": needs, "detected_by": json.loads(detected),
        "what_i_ran": ["cargo nextest run --workspace --no-fail-fast --offline in the scratch worktree with the change applied: 533 passed (confirmed by me)",
                       "the demonstration in this directory, with and without the change",
                       "UCG_REPO=<worktree> ./check <prop> --tier quick (tools/seedtest.sh)"]}
json.dump(meta, open(os.path.join(dst, "meta.json"), "w"), indent=1)
print("kept", dst, os.listdir(dst))
