#!/usr/bin/env python3
"""tools/addfinding.py fixed|known PROP ID 'commit-subject-part|-' 'signature-json' 'witness-json' 'description'"""
import json, subprocess, sys
status, prop, id_, cpart, sig, wit, desc = sys.argv[1:8]
e = {"property": prop, "id": id_, "status": status}
if status == "fixed":
    out = subprocess.run(["git", "-C", "/repo", "log", "--format=%h %s"], capture_output=True, text=True).stdout.splitlines()
    c = [l.split()[0] for l in out if cpart in l]
    if not c:
        raise SystemExit("no commit matching " + cpart)
    e["commit"] = c[0]
e["signature"] = json.loads(sig)
e["witness"] = json.loads(wit)
e["description"] = desc
if status == "fixed":
    e["record"] = "fixed: property=%s %s %s" % (prop, e["commit"], desc)
lines = [l for l in open("/verif/known_findings.jsonl") if not (l.strip().startswith("{") and json.loads(l)["id"] == id_)]
lines.append(json.dumps(e, ensure_ascii=False) + "\n")
open("/verif/known_findings.jsonl", "w").writelines(lines)
print("recorded", id_)
