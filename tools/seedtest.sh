#!/bin/bash
# tools/seedtest.sh <worktree> <prop> [more props...]  - run quick checks against a scratch worktree carrying a seeded change
wt=$1; shift
cd /verif
for p in "$@"; do
  out=$(UCG_REPO=$wt ./check $p --tier quick 2>&1); rc=$?
  echo "== $p rc=$rc : $(echo "$out" | grep '^\[C' | tail -1)"
  echo "$out" | grep -A1 "^VIOLATION" | grep signature | sort | uniq -c | sort -rn | head -8
  if [ $rc -eq 3 ]; then echo "$out" | tail -5; fi
done
# cleanup the per-checkout build/scratch/evidence copies (keyed by sha1 of the path)
h=$(python3 -c "import hashlib,sys,os;print(hashlib.sha1(os.path.realpath(sys.argv[1]).encode()).hexdigest()[:8])" $wt)
rm -rf /verif/.build/*-$h
