#!/bin/bash
# tools/confirmseed.sh <worktree>: my own confirmation of a sub-agent's seeded change: diff, test suite, build
wt=$1
cd $wt || exit 2
echo "--- diff"; git diff | head -${2:-45}
echo "--- tests"; CARGO_NET_OFFLINE=true cargo nextest run --workspace --no-fail-fast --offline 2>&1 | tail -2
cargo build --offline 2>&1 | tail -1
echo "--- demo"; ls SEEDED
